import sys, random, traceback, warnings
src = open('/tmp/explore/r1.py').read().split("errs = collections.Counter()")[0]
exec(src)
for seed in map(int, sys.argv[1:]):
    rng = random.Random(seed); random.seed(seed)
    name, s = mk(rng)
    print("=== seed", seed, name, "n", s.player_count, "autos", [a.name for a in s.automations], s.mode, "stacks", s.starting_stacks, "antes", s.antes, "blinds", s.blinds_or_straddles, "trim", s.ante_trimming_status, 'boards', s.starting_board_count)
    try:
        while s.status:
            if not step(s, rng): break
    except Exception as e:
        traceback.print_exc(limit=-4)
        for op in s.operations[-12:]: print("   ", op)
        print("statuses", s.statuses, "stacks", s.stacks, "bets", s.bets, "street", s.street_index, "allin", s.all_in_status, "showdown", list(s.showdown_indices), 'holes', s.hole_cards, 'hstat', s.hole_card_statuses)
