from pokerkit import *
A = Automation
autos = (A.ANTE_POSTING,A.BET_COLLECTION,A.BLIND_OR_STRADDLE_POSTING,A.CARD_BURNING,A.HOLE_CARDS_SHOWING_OR_MUCKING,A.HAND_KILLING,A.CHIPS_PUSHING,A.CHIPS_PULLING)
# 3 players: p0 short (stack 10) has qualifying low; p1,p2 deep, no low. 
s = FixedLimitOmahaHoldemHighLowSplitEightOrBetter.create_state(autos, True, 0, (1,2), 2, 4, (10, 100, 100), 3)
print(s.betting_structure)
s.deal_hole('As2s3d4d')   # p0 : low + wheel
s.deal_hole('KsKdQsQd')   # p1
s.deal_hole('JsJdTsTd')   # p2
# preflop: p2 acts first (UTG)
while s.actor_index is not None and s.street_index == 0:
    if s.can_complete_bet_or_raise_to(): s.complete_bet_or_raise_to()
    else: s.check_or_call()
print("bets/stacks", s.bets, s.stacks, s.street_index)
s.deal_board('5h8h9c')
while s.actor_index is not None and s.street_index == 1:
    if s.can_complete_bet_or_raise_to(): s.complete_bet_or_raise_to()
    else: s.check_or_call()
s.deal_board('Kc')
while s.actor_index is not None: s.check_or_call()
s.deal_board('2c')
while s.actor_index is not None: s.check_or_call()
print(s.status, s.stacks, s.payoffs)
for op in s.operations:
    if isinstance(op, ChipsPushing): print(op)
