# throwaway: automation twin (C09) feasibility
import sys, random, traceback, warnings, collections, copy, dataclasses
warnings.simplefilter('ignore')
from pokerkit import *
import pokerkit.state as PS
def det_shuffled(values):
    v = sorted(values, key=lambda c: (str(c.rank), str(c.suit)))
    r = random.Random(len(v)*7919+1); r.shuffle(v); return v
PS.shuffled = det_shuffled
A=Automation
ORDER=[A.ANTE_POSTING,A.BET_COLLECTION,A.BLIND_OR_STRADDLE_POSTING,A.CARD_BURNING,A.HOLE_DEALING,A.BOARD_DEALING,A.RUNOUT_COUNT_SELECTION,A.HOLE_CARDS_SHOWING_OR_MUCKING,A.HAND_KILLING,A.CHIPS_PUSHING,A.CHIPS_PULLING]
CAN={A.ANTE_POSTING:'can_post_ante',A.BET_COLLECTION:'can_collect_bets',A.BLIND_OR_STRADDLE_POSTING:'can_post_blind_or_straddle',A.CARD_BURNING:'can_burn_card',A.HOLE_DEALING:'can_deal_hole',A.BOARD_DEALING:'can_deal_board',A.RUNOUT_COUNT_SELECTION:'can_select_runout_count',A.HOLE_CARDS_SHOWING_OR_MUCKING:'can_show_or_muck_hole_cards',A.HAND_KILLING:'can_kill_hand',A.CHIPS_PUSHING:'can_push_chips',A.CHIPS_PULLING:'can_pull_chips'}
DO={A.ANTE_POSTING:'post_ante',A.BET_COLLECTION:'collect_bets',A.BLIND_OR_STRADDLE_POSTING:'post_blind_or_straddle',A.CARD_BURNING:'burn_card',A.HOLE_DEALING:'deal_hole',A.BOARD_DEALING:'deal_board',A.RUNOUT_COUNT_SELECTION:'select_runout_count',A.HOLE_CARDS_SHOWING_OR_MUCKING:'show_or_muck_hole_cards',A.HAND_KILLING:'kill_hand',A.CHIPS_PUSHING:'push_chips',A.CHIPS_PULLING:'pull_chips'}
GAMES=[(FixedLimitTexasHoldem,2),(NoLimitTexasHoldem,1),(NoLimitShortDeckHoldem,1),(PotLimitOmahaHoldem,1),(FixedLimitOmahaHoldemHighLowSplitEightOrBetter,2),(FixedLimitSevenCardStud,3),(FixedLimitRazz,3),(FixedLimitSevenCardStudHighLowSplitEightOrBetter,3),(NoLimitDeuceToSevenLowballSingleDraw,1),(FixedLimitDeuceToSevenLowballTripleDraw,2),(FixedLimitBadugi,2)]
def create(cfg, autos):
    cls,kind,n,stacks,antes,mode,trim,seed = cfg
    random.seed(seed)
    if kind==3: return cls.create_state(autos,trim,antes,1,2,4,stacks,n,mode=mode)
    if kind==2: return cls.create_state(autos,trim,antes,(1,2),2,4,stacks,n,mode=mode)
    return cls.create_state(autos,trim,antes,(1,2),2,stacks,n,mode=mode)
def eager(s, S):
    progressed=True
    while progressed and s.status:
        progressed=False
        for a in ORDER:
            if a in S and getattr(s,CAN[a])():
                getattr(s,DO[a])(); progressed=True; break
def decide(s, S, rng):
    ops=[]
    for a in ORDER:
        if a not in S and getattr(s,CAN[a])(): ops.append(getattr(s,DO[a]))
    if s.can_stand_pat_or_discard():
        i=s.stander_pat_or_discarder_index; k=rng.randint(0,len(s.hole_cards[i])); cards=tuple(s.hole_cards[i][:k]); ops.append(lambda: s.stand_pat_or_discard(cards))
    if s.can_fold() and rng.random()<0.25: ops.append(s.fold)
    if s.can_check_or_call(): ops.append(s.check_or_call)
    if s.can_post_bring_in(): ops.append(s.post_bring_in)
    if s.can_complete_bet_or_raise_to():
        lo,hi=s.min_completion_betting_or_raising_to_amount,s.max_completion_betting_or_raising_to_amount; amt=rng.choice([lo,hi]); ops.append(lambda: s.complete_bet_or_raise_to(amt))
    # NB rng consumption above depends only on state => same in both runs if states equal
    if not ops: return False
    rng.choice(ops)(); return True
bad=collections.Counter(); ex={}; ok=0
for seed in range(int(sys.argv[1])):
    g=random.Random(seed)
    cls,kind=g.choice(GAMES); n=g.randint(2,6)
    cfg=(cls,kind,n,[g.choice([2,3,5,9,20,60,200]) for _ in range(n)],g.choice([0,1,2]),g.choice(list(Mode)),g.random()<.5,seed)
    S=tuple(a for a in ORDER if g.random()<.5)
    try:
        a=create(cfg,S); ra=random.Random(seed)
        while a.status:
            if not decide(a,S,ra): break
        b=create(cfg,()); rb=random.Random(seed)
        eager(b,S)
        while b.status:
            if not decide(b,S,rb): break
            eager(b,S)
    except Exception as e:
        key=('exc',cls.__name__,type(e).__name__,str(e)[:60]); bad[key]+=1; ex.setdefault(key,seed); continue
    if a.operations!=b.operations:
        i=next((i for i,(x,y) in enumerate(zip(a.operations,b.operations)) if x!=y), min(len(a.operations),len(b.operations)))
        key=('ops-differ',cls.__name__); bad[key]+=1; ex.setdefault(key,(seed,i,[x.name for x in S],a.operations[i-1:i+2],b.operations[i-1:i+2]))
    elif a.stacks!=b.stacks: bad[('stacks',)]+=1
    else: ok+=1
for k,v in bad.most_common(): print(v,k,ex.get(k))
print('ok',ok)
