from pokerkit import *
import traceback
A = Automation
autos = (A.ANTE_POSTING,A.BET_COLLECTION,A.BLIND_OR_STRADDLE_POSTING,A.CARD_BURNING,A.HOLE_DEALING,A.BOARD_DEALING,A.HAND_KILLING,A.CHIPS_PUSHING,A.CHIPS_PULLING)
for mode in (Mode.CASH_GAME, Mode.TOURNAMENT):
    s = PotLimitOmahaHoldem.create_state(autos, True, 0, (1,2), 2, (100, 100), 2, mode=mode)
    while s.actor_index is not None: s.check_or_call()
    print(mode, "showdown", list(s.showdown_indices), s.street_index)
    try:
        print(" can show ()", s.can_show_or_muck_hole_cards(()))
        s.show_or_muck_hole_cards(())
        print(" can show ()", s.can_show_or_muck_hole_cards(()))
        s.show_or_muck_hole_cards(())
        print(" done", s.status, s.stacks, s.statuses)
    except Exception as e:
        print(" raised", type(e).__name__, e); traceback.print_exc(limit=3)
