import warnings
warnings.simplefilter('ignore')
from pokerkit import *
log = """PokerStars Hand #123456789:  Hold'em No Limit ($1/$2 USD) - 2020/01/02 12:34:56 ET
Table 'Alpha II' 6-max Seat #2 is the button
Seat 1: Alice ($200 in chips)
Seat 2: Bob ($150.50 in chips)
Seat 4: Carol ($80 in chips)
Carol: posts small blind $1
Alice: posts big blind $2
*** HOLE CARDS ***
Dealt to Alice [As Kd]
Bob: raises $4 to $6
Carol: folds
Alice: calls $4
*** FLOP *** [2c 7d Th]
Alice: checks
Bob: bets $8
Alice: raises $16 to $24
Bob: calls $16
*** TURN *** [2c 7d Th] [Js]
Alice: bets $170
Bob: calls $120.50 and is all-in
Uncalled bet ($49.50) returned to Alice
*** RIVER *** [2c 7d Th Js] [3c]
*** SHOW DOWN ***
Alice: shows [As Kd] (high card Ace)
Bob: shows [Qh Qs] (a pair of Queens)
Bob collected $300 from pot
*** SUMMARY ***
Total pot $302 | Rake $2
Board [2c 7d Th Js 3c]
Seat 1: Alice (big blind) showed [As Kd] and lost with high card Ace
Seat 2: Bob (button) showed [Qh Qs] and won ($300) with a pair of Queens
Seat 4: Carol (small blind) folded before Flop



"""
hhs = list(HandHistory.from_pokerstars(log, error_status=True))
for hh in hhs:
    print(hh.dumps())
    st = list(hh)[-1]
    print(st.status, st.stacks, st.payoffs)
