import sys
src=open('/tmp/explore/t2.py').read().split("bad=collections.Counter()")[0]
exec(src)
import traceback
seed=int(sys.argv[1])
g=random.Random(seed)
cls,kind=g.choice(GAMES); n=g.randint(2,6)
cfg=(cls,kind,n,[g.choice([2,3,5,9,20,60,200]) for _ in range(n)],g.choice([0,1,2]),g.choice(list(Mode)),g.random()<.5,seed)
S=tuple(a for a in ORDER if g.random()<.5)
print(cls.__name__, cfg[2:], [x.name for x in S])
a=create(cfg,S); ra=random.Random(seed)
try:
    while a.status:
        if not decide(a,S,ra): break
except Exception as e:
    traceback.print_exc(limit=-3)
for op in a.operations:
    if not isinstance(op,(HoleDealing,CardBurning)): print('  ',op)
print('statuses',a.statuses,'stacks',a.stacks,'bets',a.bets,'payoffs',a.payoffs)
print('pots',a._pots, a._sub_pots)
print('holes',a.hole_cards, a.hole_card_statuses)
