import warnings; warnings.simplefilter('ignore')
import random
from pokerkit import *
A=Automation
AUTO=(A.ANTE_POSTING,A.BET_COLLECTION,A.BLIND_OR_STRADDLE_POSTING,A.CARD_BURNING,A.HOLE_DEALING,A.BOARD_DEALING,A.HOLE_CARDS_SHOWING_OR_MUCKING,A.HAND_KILLING,A.CHIPS_PUSHING,A.CHIPS_PULLING)
random.seed(5)
s=NoLimitTexasHoldem.create_state(AUTO,True,0,(1,2),2,(101,50,75),3,mode=Mode.CASH_GAME,starting_board_count=2)
s.check_or_call(); s.check_or_call(); s.check_or_call()
print('flop rows', s.board_cards)
s.complete_bet_or_raise_to(99); s.check_or_call(); s.check_or_call()
print('selectors', list(s.runout_count_selector_indices), 'allin', s.all_in_status, s.street_index)
s.select_runout_count(3, 2); s.select_runout_count(None, 0); 
print('rc', s.runout_count, list(s.runout_count_selector_indices)); s.select_runout_count(3, 1)
print('status', s.status, 'board_count', s.board_count, 'rows', [len(r) for r in s.board_cards])
for i in s.board_indices: print(i, list(s.get_board_cards(i)))
allc=[c for r in s.board_cards for c in r]; print('dups', len(allc)-len(set(allc)))
for op in s.operations:
    if isinstance(op,(ChipsPushing,RunoutCountSelection)): print(op)
print(s.stacks, s.payoffs)
