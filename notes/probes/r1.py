import random, sys, traceback, warnings, collections, itertools
from fractions import Fraction
from pokerkit import *
warnings.simplefilter('ignore')
A = Automation
GAMES = [
 ('FT', FixedLimitTexasHoldem, 'blinds2'), ('NT', NoLimitTexasHoldem, 'blinds1'), ('NS', NoLimitShortDeckHoldem, 'blinds1'),
 ('NR', NoLimitRoyalHoldem, 'blinds1'),
 ('PO', PotLimitOmahaHoldem, 'blinds1'), ('FO8', FixedLimitOmahaHoldemHighLowSplitEightOrBetter, 'blinds2'),
 ('F7S', FixedLimitSevenCardStud, 'stud'), ('F7S8', FixedLimitSevenCardStudHighLowSplitEightOrBetter, 'stud'), ('FR', FixedLimitRazz, 'stud'),
 ('N2L1D', NoLimitDeuceToSevenLowballSingleDraw, 'blinds1'), ('F2L3D', FixedLimitDeuceToSevenLowballTripleDraw, 'blinds2'), ('FB', FixedLimitBadugi, 'blinds2'),
]
def mk(rng):
    name, cls, kind = rng.choice(GAMES)
    maxn = {'NR':4,'NS':6,'F7S':8,'F7S8':8,'FR':8,'N2L1D':6,'F2L3D':6,'FB':6}.get(name, 9)
    n = rng.randint(2, maxn)
    autos = tuple(a for a in A if rng.random() < 0.7)
    if A.CARD_BURNING not in autos and (A.HOLE_DEALING in autos or A.BOARD_DEALING in autos):
        autos += (A.CARD_BURNING,)
    mode = rng.choice(list(Mode))
    stacks = [rng.choice([1,2,3,5,8,13,20,50,100,200]) for _ in range(n)]
    trim = rng.random()<0.5
    antes = rng.choice([0, 0, 1, 2, {-1: 3}, {1: 2}])
    kw = dict(mode=mode)
    if kind=='stud':
        antes = rng.choice([0,1,2]); 
        s = cls.create_state(autos, trim, antes, 1, 2, 4, stacks, n, **kw)
    elif kind=='blinds2':
        bl = rng.choice([(1,2),(1,2,4),(2,2),{0:1,1:2,-1:4}]) if n>2 else (1,2)
        s = cls.create_state(autos, trim, antes, bl, 2, 4, stacks, n, **kw)
    else:
        bl = rng.choice([(1,2),(1,2,4),(2,2),{0:1,1:2,-1:4}, (0,2)]) if n>2 else (1,2)
        kw['starting_board_count'] = rng.choice([1,1,2]) if name in ('NT','PO') else 1
        s = cls.create_state(autos, trim, antes, bl, 2, stacks, n, **kw)
    return name, s
def step(s, rng):
    ops = []
    if s.can_post_ante(): ops.append(lambda: s.post_ante(rng.choice(list(s.ante_poster_indices))))
    if s.can_collect_bets(): ops.append(s.collect_bets)
    if s.can_post_blind_or_straddle(): ops.append(lambda: s.post_blind_or_straddle(rng.choice(list(s.blind_or_straddle_poster_indices))))
    if s.can_burn_card(): ops.append(s.burn_card)
    if s.can_deal_hole(): ops.append(s.deal_hole)
    if s.can_deal_board(): ops.append(s.deal_board)
    if s.can_stand_pat_or_discard():
        i = s.stander_pat_or_discarder_index
        k = rng.randint(0, len(s.hole_cards[i]))
        cards = rng.sample(s.hole_cards[i], k)
        ops.append(lambda: s.stand_pat_or_discard(cards))
    if s.can_fold() and rng.random()<0.3: ops.append(s.fold)
    if s.can_check_or_call(): ops.append(s.check_or_call)
    if s.can_post_bring_in(): ops.append(s.post_bring_in)
    if s.can_complete_bet_or_raise_to():
        lo, hi = s.min_completion_betting_or_raising_to_amount, s.max_completion_betting_or_raising_to_amount
        amt = rng.choice([lo, hi, rng.randint(lo, hi)])
        ops.append(lambda: s.complete_bet_or_raise_to(amt))
    if s.can_select_runout_count():
        ops.append(lambda: s.select_runout_count(rng.choice([None,1,2,2,3])))
    if s.can_show_or_muck_hole_cards():
        ops.append(lambda: s.show_or_muck_hole_cards(True))
        if rng.random()<0.2 and sum(s.statuses)>1: ops.append(lambda: s.show_or_muck_hole_cards(False))
        ops.append(s.show_or_muck_hole_cards)
    if s.can_kill_hand(): ops.append(s.kill_hand)
    if s.can_push_chips(): ops.append(s.push_chips)
    if s.can_pull_chips(): ops.append(s.pull_chips)
    if not ops: return False
    rng.choice(ops)()
    return True
errs = collections.Counter(); ex = {}
N = int(sys.argv[1]); base=int(sys.argv[2]) if len(sys.argv)>2 else 0
lens = []
for seed in range(base, base+N):
    rng = random.Random(seed); random.seed(seed)
    try:
        name, s = mk(rng)
    except Exception as e:
        key = ('ctor', type(e).__name__, str(e)[:60]); errs[key]+=1; ex.setdefault(key, seed); continue
    steps = 0
    try:
        while s.status:
            if not step(s, rng):
                key=('stuck', name); errs[key]+=1; ex.setdefault(key, seed); break
            steps += 1
            tot = sum(s.stacks)+sum(s.bets)+sum(p.amount for p in s.pots)
            if tot != sum(s.starting_stacks):
                key=('conservation', name); errs[key]+=1; ex.setdefault(key, seed); break
            if steps > 2000:
                key=('long', name); errs[key]+=1; ex.setdefault(key, seed); break
        else:
            if sum(s.payoffs)!=0 or any(s.bets):
                key=('payoff', name, sum(s.statuses)); errs[key]+=1; ex.setdefault(key, seed)
        lens.append(len(s.operations))
    except Exception as e:
        tb = traceback.extract_tb(e.__traceback__)
        fr = [f for f in tb if 'pokerkit' in f.filename][-1]
        key = ('exc', name, type(e).__name__, str(e)[:70], fr.lineno); errs[key]+=1; ex.setdefault(key, seed)
for k,v in errs.most_common(): print(v, k, 'seed', ex[k])
print('hands', N, 'avg ops', sum(lens)/max(1,len(lens)))
