import copy
from pokerkit import *
A = Automation
autos = (A.ANTE_POSTING,A.BET_COLLECTION,A.BLIND_OR_STRADDLE_POSTING,A.HOLE_DEALING,A.BOARD_DEALING,A.HOLE_CARDS_SHOWING_OR_MUCKING)
try:
    s = NoLimitTexasHoldem.create_state(autos, True, 0, (1,2), 2, (1,2), 2)
    print("constructed", s.status, s.card_burning_status)
except Exception as e:
    print("constructor raised", type(e).__name__, e)
s = NoLimitTexasHoldem.create_state(autos, True, 0, (1,2), 2, (10,10), 2)
s.complete_bet_or_raise_to(10)
before = copy.deepcopy(s)
try:
    s.check_or_call()
    print("ok", s.status)
except Exception as e:
    print("check_or_call raised", type(e).__name__, e)
    print("ops before/after", len(before.operations), len(s.operations), s.operations[len(before.operations):])
    print("state now: burn pending", s.card_burning_status, "board counts", s.board_dealing_counts, "can_burn", s.can_burn_card())
    s.burn_card()
    print("after burn: board", s.board_cards, s.status, s.card_burning_status)
