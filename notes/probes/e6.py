from pokerkit import *
A = Automation
print("== D7 equities hi/lo no qualifying low")
eq = calculate_equities((parse_range('AsKs'), parse_range('QdQc')), Card.parse('KhKdTc9c9h'), 2, 5, Deck.STANDARD, (StandardHighHand, EightOrBetterLowHand), sample_count=10)
print(eq)
print("== D6 ante trimming dropped")
autos = (A.ANTE_POSTING,A.BET_COLLECTION,A.BLIND_OR_STRADDLE_POSTING,A.CARD_BURNING,A.HOLE_DEALING,A.BOARD_DEALING,A.HOLE_CARDS_SHOWING_OR_MUCKING,A.HAND_KILLING,A.CHIPS_PUSHING,A.CHIPS_PULLING)
game = NoLimitTexasHoldem(autos, True, 5, (1,2), 2)
state = game((3, 100, 100), 3)
while state.actor_index is not None: state.check_or_call()
print(state.status, state.stacks)
hh = HandHistory.from_game_state(game, state)
txt = hh.dumps(); print(txt)
hh2 = HandHistory.loads(txt)
print(hh2.ante_trimming_status, hh2 == hh, hh2.dumps()==txt)
final = list(hh2)[-1]
print(final.status, final.stacks)
