# throwaway: log replay (C15a) + automation twin feasibility (C09) on patched semantics
import sys, random, traceback, warnings, collections, copy, dataclasses
src = open('/tmp/explore/r1.py').read().split("errs = collections.Counter()")[0]
exec(src)
import pokerkit.state as PS
from pokerkit.state import *
def det_shuffled(values):
    v = sorted(values, key=lambda c: (str(c.rank), str(c.suit)))
    r = random.Random(len(v)*7919+1); r.shuffle(v); return v
PS.shuffled = det_shuffled
def apply(s, op):
    c = op.commentary
    if isinstance(op, AntePosting): r = s.post_ante(op.player_index)
    elif isinstance(op, BetCollection): r = s.collect_bets()
    elif isinstance(op, BlindOrStraddlePosting): r = s.post_blind_or_straddle(op.player_index)
    elif isinstance(op, CardBurning): r = s.burn_card(op.card)
    elif isinstance(op, HoleDealing): r = s.deal_hole(op.cards, op.player_index)
    elif isinstance(op, BoardDealing): r = s.deal_board(op.cards)
    elif isinstance(op, StandingPatOrDiscarding): r = s.stand_pat_or_discard(op.cards)
    elif isinstance(op, Folding): r = s.fold()
    elif isinstance(op, CheckingOrCalling): r = s.check_or_call()
    elif isinstance(op, BringInPosting): r = s.post_bring_in()
    elif isinstance(op, CompletionBettingOrRaisingTo): r = s.complete_bet_or_raise_to(op.amount)
    elif isinstance(op, RunoutCountSelection): r = s.select_runout_count(op.runout_count, op.player_index)
    elif isinstance(op, HoleCardsShowingOrMucking): r = s.show_or_muck_hole_cards(op.hole_cards if op.hole_cards else False, op.player_index)
    elif isinstance(op, HandKilling): r = s.kill_hand(op.player_index)
    elif isinstance(op, ChipsPushing): r = s.push_chips()
    elif isinstance(op, ChipsPulling): r = s.pull_chips(op.player_index)
    else: raise TypeError(op)
    return r
def fresh(s, seed):
    random.seed(seed)
    return State((), s.deck, s.hand_types, s.streets, s.betting_structure, s.ante_trimming_status, s.antes, s.blinds_or_straddles, s.bring_in, s.starting_stacks, s.player_count, mode=s.mode, starting_board_count=s.starting_board_count)
def pub(s):
    d = {f.name: getattr(s, f.name) for f in dataclasses.fields(s) if f.name not in ('deck_cards','automations','divmod','rake','raw_antes','raw_blinds_or_straddles','raw_starting_stacks')}
    d['deck_set'] = sorted(map(repr, s.deck_cards))
    return copy.deepcopy(d)
bad = collections.Counter(); ex = {}
N=int(sys.argv[1])
for seed in range(N):
    rng = random.Random(seed); random.seed(seed)
    try:
        name, s = mk(rng)
        while s.status:
            if not step(s, rng): break
    except Exception as e:
        continue
    if sum(s.statuses)==0: continue
    t = fresh(s, seed+12345)
    try:
        for i, op in enumerate(s.operations):
            r = apply(t, op)
            if r != op:
                key=('op-differs', name, type(op).__name__); bad[key]+=1; ex.setdefault(key,(seed,i,op,r)); break
        else:
            if t.operations != s.operations: key=('log-differs',name); bad[key]+=1; ex.setdefault(key,seed)
            else:
                a,b = pub(s), pub(t)
                diff=[k for k in a if a[k]!=b[k]]
                if diff: key=('final-differs',name,tuple(diff)); bad[key]+=1; ex.setdefault(key,seed)
    except Exception as e:
        key=('replay-exc', name, type(op).__name__, type(e).__name__, str(e)[:80]); bad[key]+=1; ex.setdefault(key,(seed,i))
for k,v in bad.most_common(): print(v,k,ex[k])
print("done")
