import warnings
warnings.simplefilter('ignore')
from pokerkit import *
def run(name, fn, log):
    print("=====", name)
    try:
        hhs = list(fn(log, error_status=True))
    except Exception as e:
        print("  IMPORT FAILED:", type(e).__name__, e); return
    print("  hands:", len(hhs))
    for hh in hhs:
        print("  players", hh.players, "seats", hh.seats, "blinds", hh.blinds_or_straddles, "antes", hh.antes, "stacks", hh.starting_stacks, "winnings", hh.winnings, 'fin', hh.finishing_stacks)
        print("  actions", hh.actions)
        try:
            st = list(hh)[-1]; print("  replay:", st.status, st.stacks, st.payoffs)
        except Exception as e: print("  REPLAY FAILED", type(e).__name__, e)

FT = """Full Tilt Poker Game #1234567: Table Alpha (6 max) - $1/$2 - No Limit Hold'em - 12:34:56 ET - 2010/01/02
Seat 1: Alice ($200)
Seat 2: Bob ($150.50)
Seat 4: Carol ($80)
Carol posts the small blind of $1
Alice posts the big blind of $2
The button is in seat #2
*** HOLE CARDS ***
Dealt to Alice [As Kd]
Bob raises to $6
Carol folds
Alice calls $4
*** FLOP *** [2c 7d Th]
Alice checks
Bob bets $8
Alice raises to $24
Bob calls $16
*** TURN *** [2c 7d Th] [Js]
Alice bets $170
Bob calls $120.50, and is all in
Uncalled bet of $49.50 returned to Alice
Alice shows [As Kd]
Bob shows [Qh Qs]
*** RIVER *** [2c 7d Th Js] [3c]
Alice shows a pair
Bob wins the pot ($302) with a pair of Queens
*** SUMMARY ***
Total pot $302 | Rake $0
Board: [2c 7d Th Js 3c]
Seat 1: Alice (big blind) showed [As Kd] and lost with Ace King high
Seat 2: Bob (button) collected ($302)
Seat 4: Carol (small blind) folded before the Flop



"""
run("FullTilt", HandHistory.from_full_tilt_poker, FT)

PP = """***** Hand History for Game 9876543210 *****
$2 USD NL Texas Hold'em - Saturday, January 02, 12:34:56 EST 2010
Table Alpha (Real Money)
Seat 2 is the button
Total number of players : 3/6 
Seat 1: Alice ( $200 USD )
Seat 2: Bob ( $150.50 USD )
Seat 4: Carol ( $80 USD )
Carol posts small blind [$1 USD].
Alice posts big blind [$2 USD].
** Dealing down cards **
Dealt to Alice [  As Kd ]
Bob raises [$6 USD]
Carol folds
Alice calls [$4 USD]
** Dealing Flop ** [ 2c, 7d, Th ]
Alice checks
Bob bets [$8 USD]
Alice raises [$24 USD]
Bob calls [$16 USD]
** Dealing Turn ** [ Js ]
Alice bets [$170 USD]
Bob is all-In  [$120.50 USD]
** Dealing River ** [ 3c ]
Alice shows [ As, Kd ]high card Ace.
Bob shows [ Qh, Qs ]a pair of Queens.
Alice wins $49.50 USD from the side pot 1 with high card, Ace.
Bob wins $302 USD from the main pot with a pair of Queens.



"""
run("PartyPoker", HandHistory.from_partypoker, "Game #9876543210 starts.\n\n#Game No : 9876543210 \n" + PP)

ON = """***** History for hand R5-12345678-1 *****
Start hand: Sat Jan 02 12:34:56 GMT+0100 2010
Table: Alpha [12345] (NO_LIMIT TEXAS_HOLDEM $1/$2, Real money)
User: Alice
Button: seat 2
Players in round: 3
Seat 4: Carol ($80) 
Seat 1: Alice ($200) 
Seat 2: Bob ($150.50) 
Carol posts small blind ($1)
Alice posts big blind ($2)
---
Dealing pocket cards
Dealing to Alice: [As, Kd]
Bob raises $6 to $6
Carol folds
Alice calls $4
--- Dealing flop [2c, 7d, Th]
Alice checks
Bob bets $8
Alice raises $24 to $24
Bob calls $16
--- Dealing turn [Js]
Alice bets $170
Bob calls $120.50 [all in]
--- Dealing river [3c]
---
Summary:
Main pot: $302 won by Bob ($302)
Rake taken: $0
Seat 4: Carol ($79), net: -$1
Seat 1: Alice ($49.50), net: -$150.50, [As, Kd] (HIGH_CARD ACE)
Seat 2: Bob ($302), net: +$151.50, [Qh, Qs] (PAIR QUEEN)
***** End of hand R5-12345678-1 *****



"""
run("Ongame", HandHistory.from_ongame_network, ON)

AP = """Stage #1234567890: Holdem  No Limit $2 - 2010-01-02 12:34:56 (ET)
Table: ALPHA AVE (Real Money) Seat #2 is the dealer
Seat 1 - ALICE ($200 in chips)
Seat 2 - BOB ($150.50 in chips)
Seat 4 - CAROL ($80 in chips)
CAROL - Posts small blind $1
ALICE - Posts big blind $2
*** POCKET CARDS ***
BOB - Raises $6 to $6
CAROL - Folds
ALICE - Calls $4
*** FLOP *** [2c 7d 10h]
ALICE - Checks
BOB - Bets $8
ALICE - Raises $24 to $24
BOB - Calls $16
*** TURN *** [2c 7d 10h] [Js]
ALICE - Bets $170
BOB - All-In $120.50
ALICE - returned ($49.50) : not called
*** RIVER *** [2c 7d 10h Js] [3c]
*** SHOW DOWN ***
ALICE - Shows [As Kd] (high card ace)
BOB - Shows [Qh Qs] (One pair, queens)
BOB Collects $302 from main pot
*** SUMMARY ***
Total Pot($302)
Board [2c 7d 10h Js 3c]
Seat 1: ALICE (big blind) HI:lost with high card ace [As Kd]
Seat 2: BOB (dealer) collected Total ($302) HI:($302) with One pair, queens [Qh Qs]
Seat 4: CAROL (small blind) Folded on the POCKET CARDS



"""
run("Absolute", HandHistory.from_absolute_poker, AP)

IP = """<session sessioncode="123">
<general><gametype>Holdem NL $1/$2</gametype><tablename>Alpha, 12345</tablename><currency>USD</currency></general>
<game gamecode="1234567890">
<general>
<startdate>2010-01-02 12:34:56</startdate>
<players>
<player seat="1" name="Alice" chips="$200" dealer="0" win="$0" bet="$200" rebuy="0" addon="0" />
<player seat="2" name="Bob" chips="$150.50" dealer="1" win="$302" bet="$150.50" rebuy="0" addon="0" />
<player seat="4" name="Carol" chips="$80" dealer="0" win="$0" bet="$1" rebuy="0" addon="0" />
</players>
</general>
<round no="0">
<action no="1" player="Carol" type="1" sum="$1" cards="[cards]"/>
<action no="2" player="Alice" type="2" sum="$2" cards="[cards]"/>
</round>
<round no="1">
<cards type="Pocket" player="Alice">sA dK</cards>
<cards type="Pocket" player="Bob">X X</cards>
<cards type="Pocket" player="Carol">X X</cards>
<action no="3" player="Bob" type="23" sum="$6" cards="[cards]"/>
<action no="4" player="Carol" type="0" sum="$0" cards="[cards]"/>
<action no="5" player="Alice" type="3" sum="$4" cards="[cards]"/>
</round>
<round no="2">
<cards type="Flop" player="">c2 d7 h10</cards>
<action no="6" player="Alice" type="4" sum="$0" cards="[cards]"/>
<action no="7" player="Bob" type="5" sum="$8" cards="[cards]"/>
<action no="8" player="Alice" type="23" sum="$24" cards="[cards]"/>
<action no="9" player="Bob" type="3" sum="$16" cards="[cards]"/>
</round>
<round no="3">
<cards type="Turn" player="">sJ</cards>
<action no="10" player="Alice" type="5" sum="$170" cards="[cards]"/>
<action no="11" player="Bob" type="3" sum="$120.50" cards="[cards]"/>
</round>
<round no="4">
<cards type="River" player="">c3</cards>
</round>
</game>
</session>
"""
run("iPoker", HandHistory.from_ipoker_network, IP)
