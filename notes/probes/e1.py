import warnings, random, traceback
from pokerkit import *
A = Automation
ALL = tuple(A)
print("== D8 blinds + bring-in accepted?")
try:
    s = State((A.ANTE_POSTING,A.BET_COLLECTION,A.BLIND_OR_STRADDLE_POSTING), Deck.STANDARD, (StandardHighHand,),
      (Street(False,(False,False,True),0,False,Opening.LOW_CARD,4,4),), BettingStructure.FIXED_LIMIT, True, 0, (1,2), 1, 100, 3)
    print("accepted; blinds", s.blinds_or_straddles, "bring_in", s.bring_in)
except ValueError as e:
    print("rejected", e)
try:
    s = State((A.ANTE_POSTING,A.BET_COLLECTION,A.BLIND_OR_STRADDLE_POSTING), Deck.STANDARD, (StandardHighHand,),
      (Street(False,(False,False,True),0,False,Opening.LOW_CARD,4,4),), BettingStructure.FIXED_LIMIT, True, 0, (1,-2), 1, 100, 3)
    print("accepted neg")
except ValueError as e:
    print("rejected neg:", e)

print("== D1 can_select_runout_count arg forwarding")
s = NoLimitTexasHoldem.create_state((A.ANTE_POSTING,A.BET_COLLECTION,A.BLIND_OR_STRADDLE_POSTING,A.CARD_BURNING,A.HOLE_DEALING,A.BOARD_DEALING,A.HAND_KILLING,A.CHIPS_PUSHING,A.CHIPS_PULLING), True, 0, (1,2), 2, (10,10), 2, mode=Mode.CASH_GAME)
s.complete_bet_or_raise_to(10); s.check_or_call()
print("selectors", list(s.runout_count_selector_indices))
for args in [(0,), (-3,), (2,0), (2,1), (None,0)]:
    c = s.can_select_runout_count(*args)
    t = __import__('copy').deepcopy(s)
    try:
        t.select_runout_count(*args); ok=True
    except ValueError as e: ok=False
    print(args, "can=",c,"op=",ok)

print("== D2 partial show in tournament after end")
s = NoLimitTexasHoldem.create_state(ALL, True, 0, (1,2), 2, (10,10), 2)
s.fold()
print("status", s.status, s.hole_cards)
for arg in ['As', True, ()]:
    for i in (0,1):
        try:
            r = s.can_show_or_muck_hole_cards(arg, i)
            print(arg, i, "can", r)
        except BaseException as e:
            print(arg, i, "can raised", type(e).__name__, e)
