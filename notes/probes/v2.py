import warnings, traceback, re
warnings.simplefilter('ignore')
from pokerkit.notation import *
from pokerkit.utilities import parse_value
src = open('/tmp/explore/v1.py').read()
ns = {}
exec(src.split("def run(")[0], ns)
ON = src.split('ON = """')[1].split('"""')[0]
IP = src.split('IP = """')[1].split('"""')[0]
for P, log in ((OngameNetworkParser, ON), (IPokerNetworkParser, IP)):
    p = P()
    ss = findall(p.HAND, log)
    print(P.__name__, 'hands found', len(ss))
    for s in ss:
        try:
            p._parse(s, parse_value)
        except Exception:
            traceback.print_exc(limit=-3)
