import warnings, random, traceback, copy
from pokerkit import *
A = Automation
ALL = tuple(A)
print("== D3 cascade: hole+board dealing automated, no card burning, all-in blinds")
try:
    s = NoLimitTexasHoldem.create_state((A.ANTE_POSTING,A.BET_COLLECTION,A.BLIND_OR_STRADDLE_POSTING,A.HOLE_DEALING,A.BOARD_DEALING), True, 0, (1,2), 2, (1,2), 2)
    print("constructed", s.status, s.card_burning_status)
except Exception as e:
    print("constructor raised", type(e).__name__, e)
try:
    s = NoLimitTexasHoldem.create_state((A.ANTE_POSTING,A.BET_COLLECTION,A.BLIND_OR_STRADDLE_POSTING,A.HOLE_DEALING,A.BOARD_DEALING), True, 0, (1,2), 2, (10,10), 2)
    s.complete_bet_or_raise_to(10)
    before = copy.deepcopy(s)
    s.check_or_call()
    print("ok", s.status)
except Exception as e:
    print("check_or_call raised", type(e).__name__, e)
    print("state changed?", before.operations != s.operations, len(before.operations), len(s.operations))

print("== all-muck: chips destroyed?")
s = NoLimitTexasHoldem.create_state((A.ANTE_POSTING,A.BET_COLLECTION,A.BLIND_OR_STRADDLE_POSTING,A.CARD_BURNING,A.HOLE_DEALING,A.BOARD_DEALING,A.HAND_KILLING,A.CHIPS_PUSHING,A.CHIPS_PULLING), True, 0, (1,2), 2, (10,10), 2, mode=Mode.CASH_GAME)
s.check_or_call(); s.check_or_call()
for _ in range(3):
    s.check_or_call(); s.check_or_call()
print("showdown idx", list(s.showdown_indices))
print(s.can_show_or_muck_hole_cards(False))
s.show_or_muck_hole_cards(False)
print("after 1 muck: status", s.status, s.stacks, list(s.showdown_indices), s.statuses)
if s.status:
    print(s.can_show_or_muck_hole_cards(False))
    try:
        s.show_or_muck_hole_cards(False)
        print("after 2 mucks: status", s.status, s.stacks, s.statuses, s.payoffs, s.total_pot_amount)
    except Exception as e:
        print("raised", type(e).__name__, e)
# tournament
s = NoLimitTexasHoldem.create_state((A.ANTE_POSTING,A.BET_COLLECTION,A.BLIND_OR_STRADDLE_POSTING,A.CARD_BURNING,A.HOLE_DEALING,A.BOARD_DEALING,A.HAND_KILLING,A.CHIPS_PUSHING,A.CHIPS_PULLING), True, 0, (1,2), 2, (10,10), 2)
s.check_or_call(); s.check_or_call()
for _ in range(3):
    s.check_or_call(); s.check_or_call()
s.show_or_muck_hole_cards(False)
print("T after 1 muck: status", s.status, s.stacks, list(s.showdown_indices), s.statuses)
