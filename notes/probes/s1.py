import warnings; warnings.simplefilter('ignore')
from pokerkit import *
A=Automation
AUTO=(A.ANTE_POSTING,A.BET_COLLECTION,A.BLIND_OR_STRADDLE_POSTING,A.CARD_BURNING,A.HOLE_DEALING,A.BOARD_DEALING,A.HOLE_CARDS_SHOWING_OR_MUCKING,A.HAND_KILLING,A.CHIPS_PUSHING,A.CHIPS_PULLING)
def amts(s): return (s.actor_index, s.checking_or_calling_amount, s.min_completion_betting_or_raising_to_amount, s.pot_completion_betting_or_raising_to_amount, s.max_completion_betting_or_raising_to_amount)
print("(a) straddle 1/2/4, min_bet 2: first raise min-to")
s=NoLimitTexasHoldem.create_state(AUTO,True,0,(1,2,4),2,200,4); print(amts(s))
print("(b) effective stack cap: p0 big, others short")
s=NoLimitTexasHoldem.create_state(AUTO,True,0,(1,2),2,(3,200,5),3); print(amts(s), s.bets, s.stacks)
s.check_or_call(); print(amts(s)); 
print("(c) heads-up swap: blinds (1,2), antes {0:5}")
s=NoLimitTexasHoldem.create_state(AUTO,False,{0:5},(1,2),2,(100,100),2); print(s.bets, s.stacks, amts(s), [s.get_effective_ante(i) for i in (0,1)], [s.get_effective_blind_or_straddle(i) for i in (0,1)])
print("(d) short all-in cumulative")
s=NoLimitTexasHoldem.create_state(AUTO,True,0,(1,2),2,(1000,1000,1000,130+0,190,1000),6)
# preflop: p2 UTG acts first
print(amts(s)); s.complete_bet_or_raise_to(100)  # p2 raise to 100 (inc 98)
print('p3', amts(s)); s.complete_bet_or_raise_to(130) # p3 all-in 130 (inc 30)
print('p4', amts(s)); s.complete_bet_or_raise_to(190) # p4 all-in 190 (inc 60) cum 90 <98
print('p5', amts(s)); s.check_or_call()
print('p0', amts(s)); s.fold(); print('p1', amts(s)); s.fold()
print('p2 faces', amts(s), 'can raise', s.can_complete_bet_or_raise_to(), 'acted', s.acted_player_indices, s.consecutive_all_in_completion_betting_or_raising_amounts, s.completion_betting_or_raising_amount)
print("(e) stud completion/cap")
s=FixedLimitSevenCardStud.create_state(AUTO,True,1,1,4,8,100,3)
print(amts(s), s.bring_in_status, s.can_fold(), s.can_check_or_call()); s.post_bring_in(); print(amts(s), s.completion_status)
n=0
while s.can_complete_bet_or_raise_to(): s.complete_bet_or_raise_to(); n+=1; 
print('raises', n, s.bets, amts(s))
print("(f) pot-limit with antes")
s=PotLimitOmahaHoldem.create_state(AUTO,True,1,(1,2),2,200,3); print(amts(s), s.total_pot_amount, s.bets)
print("(g) fixed limit all-in for less")
s=FixedLimitTexasHoldem.create_state(AUTO,True,0,(1,2),2,4,(100,100,3),3); print(amts(s))
s.complete_bet_or_raise_to(); print(amts(s), s.bets, s.completion_betting_or_raising_amount); s.complete_bet_or_raise_to(); print(amts(s), s.bets)
