import time, itertools
from pokerkit import *
from pokerkit.hands import StandardHighHand
deck = list(Deck.STANDARD)
lk = StandardHighHand.lookup
t=time.time(); n=0
for combo in itertools.islice(itertools.combinations(deck,5), 200000):
    e = lk.get_entry(combo); n+=1
dt=time.time()-t
print('lookup.get_entry per hand us', dt/n*1e6, 'full deck single core s', dt/n*2598960)
t=time.time(); n=0
for combo in itertools.islice(itertools.combinations(deck,5), 50000):
    h = StandardHighHand(combo); n+=1
dt=time.time()-t
print('Hand() per hand us', dt/n*1e6)
# TOML string corner
from pokerkit.notation import HandHistory
import tomllib
for v in ["it's", "a'''b", "tab\there", "quote\"d", "ends'", "#hash", "unié"]:
    hh = HandHistory(variant='NT', antes=[0,0], blinds_or_straddles=[1,2], min_bet=2, starting_stacks=[10,10], actions=[], user_defined_fields={'_k': v})
    try:
        back = HandHistory.loads(hh.dumps()).user_defined_fields.get('_k')
        print(repr(v), '->', repr(back), back==v)
    except Exception as e:
        print(repr(v), 'ERR', type(e).__name__, str(e)[:60])
