"""Worker for the cross-interpreter determinism part of C15.

Reads a JSON list of cases from stdin, runs each one (same deck order, same
tape) in *this* interpreter - started by the parent with its own
PYTHONHASHSEED - and prints one digest per case: the operation log, the final
stacks and every player's hole cards with their facing.  Card hashes are
string hashes, so anything that iterates a set of cards shows up as a digest
that differs between interpreters.
"""
import hashlib
import json
import sys
import warnings


def digest(case):
    from .engine import patch_shuffled
    from .props.c15 import _run, _late_show
    patch_shuffled(True)
    with warnings.catch_warnings():
        warnings.simplefilter('ignore')
        try:
            it = _run(case['config'], case['tape'])
            _late_show(it, case, None)
        except Exception as e:  # noqa: BLE001
            return 'exc:' + type(e).__name__
    s = it.state
    body = repr((list(map(repr, s.operations)), list(s.stacks),
                 [list(map(repr, h)) for h in s.hole_cards],
                 [list(x) for x in s.hole_card_statuses],
                 list(map(repr, s.mucked_cards))))
    return hashlib.blake2b(body.encode(), digest_size=8).hexdigest()


def main():
    cases = json.load(sys.stdin)
    print(json.dumps([digest(c) for c in cases]))


if __name__ == '__main__':
    main()
