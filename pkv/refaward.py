"""Reference pot construction and award calculator (from the rules, not from
the engine).

Pots: one per distinct set of eligible live players, in increasing
contribution order; a chip belongs to the level it was wagered at; antes that
are not trimmed are dead money in the first pot; a level no live player
reached joins the pot below.  Award: each pot (after rake) is divided evenly
between the boards, then between the hand types some contender of *that pot*
qualifies for, then between the holders of the strongest hand; remainders go
to the first board, the first hand type and the earliest position.
"""
from __future__ import annotations

import builtins
from numbers import Integral

from . import refeval


def default_divmod(amount, k):
    if isinstance(amount, Integral):
        return builtins.divmod(amount, k)
    q = amount / k
    return q, amount - q * k


def ref_rake(amount, cfg_rake, chip, any_board):
    """(raked, unraked) as documented for pokerkit.utilities.rake."""
    if not cfg_rake:
        return 0 * amount, amount
    if cfg_rake[0] == 'flat':
        _, drop, nfnd = cfg_rake
        if nfnd and not any_board:
            return 0 * amount, amount
        raked = min(amount, drop)
        return raked, amount - raked
    pct, cap, nfnd = cfg_rake
    if nfnd and not any_board:
        return 0 * amount, amount
    raked = amount * pct
    if isinstance(amount, Integral):
        raked = round(raked)
    if cap is not None:
        raked = min(raked, cap)
    return raked, amount - raked


def build_pots(collected, ante_part, live, trimmed):
    """collected[i]: chips of player i that were collected into the pot(s);
    ante_part[i]: how much of that was the ante; returns [(amount, eligible)].
    """
    n = len(collected)
    dead = 0
    build_pots.orphan = False   # set when a level had no live contributor
    if trimmed:
        contrib = list(collected)
    else:
        contrib = [collected[i] - ante_part[i] for i in range(n)]
        dead = sum(ante_part)
    pots = []
    prev_level = 0
    prev_elig = []
    carry = dead
    for level in sorted(set(contrib)):
        amount = carry
        carry = 0
        for i in range(n):
            if contrib[i] >= level:
                amount += level - prev_level
        elig = [i for i in range(n) if live[i] and contrib[i] >= level]
        if not elig:
            elig = prev_elig
            build_pots.orphan = True
        prev_elig = elig
        while pots and pots[-1][1] == elig:
            amount += pots.pop()[0]
        if amount:
            pots.append((amount, elig))
        prev_level = level
    return pots


def award(pots_unraked, live, up_cards, boards, hand_types, divmod_fn=None):
    """Expected pushes.

    pots_unraked: [(unraked_amount, eligible)], up_cards[i]: tabled cards of
    player i as (rank, suit) pairs, boards: list of boards (lists of pairs),
    hand_types: class names.  Returns (pushes, totals) with pushes =
    [(pot_index, board_index, hand_type_index, amounts_tuple)].
    """
    dm = divmod_fn or default_divmod
    n = len(live)
    totals = [0] * n
    pushes = []
    nlive = sum(1 for x in live if x)
    if nlive == 1:
        w = live.index(True)
        for pi, (amount, elig) in enumerate(pots_unraked):
            amts = [0] * n
            amts[w] = amount
            totals[w] += amount
            pushes.append((pi, None, None, tuple(amts)))
        return pushes, totals
    if nlive == 0:
        return pushes, totals
    strengths = {}
    for j, board in enumerate(boards):
        for k, ht in enumerate(hand_types):
            for i in range(n):
                strengths[i, j, k] = (
                    refeval.best(ht, up_cards[i], board) if live[i] else None
                )
    nb = len(boards)
    for pi, (amount, elig) in enumerate(pots_unraked):
        q, r = dm(amount, nb)
        for j in range(nb):
            sub = q + (r if j == 0 else 0)
            types = [
                k for k in range(len(hand_types))
                if any(strengths[i, j, k] is not None for i in elig)
            ]
            if not types:
                continue
            sq, sr = dm(sub, len(types))
            for k in types:
                ss = sq + (sr if k == types[0] else 0)
                if not ss:
                    continue
                best = max(strengths[i, j, k] for i in elig
                           if strengths[i, j, k] is not None)
                winners = [i for i in elig if strengths[i, j, k] == best]
                wq, wr = dm(ss, len(winners))
                amts = [0] * n
                for i in winners:
                    amts[i] = wq + (wr if i == winners[0] else 0)
                    totals[i] += amts[i]
                pushes.append((pi, j, k, tuple(amts)))
    return pushes, totals
