"""Run a property's ``env_digest(case)`` over a list of cases in *another
interpreter process* - started with its own PYTHONHASHSEED and/or ``-O`` - so
that behaviour depending on process-level facts (set iteration order of
string-hashed cards, ``__debug__``) shows up as a digest that differs from the
one computed here.

  python [-O] -m pkv.envrun C05 < cases.json   ->  JSON list of digests
"""
import json
import os
import subprocess
import sys


def digests_here(prop_id, cases):
    from .runner import load_prop
    mod = load_prop(prop_id)
    return [mod.env_digest(c) for c in cases]


def digests_in(prop_id, cases, hash_seed='0', optimize=False, timeout=900):
    from . import REPO, VERIF
    env = dict(os.environ, PYTHONHASHSEED=str(hash_seed),
               PYTHONDONTWRITEBYTECODE='1', PKV_REPO=REPO, PYTHONPATH=VERIF)
    env.pop('PYTHONOPTIMIZE', None)
    argv = [sys.executable] + (['-O'] if optimize else []) + \
        ['-m', 'pkv.envrun', prop_id]
    r = subprocess.run(argv, cwd=VERIF, input=json.dumps(cases),
                       capture_output=True, text=True, env=env,
                       timeout=timeout)
    if r.returncode != 0:
        from .engine import HarnessError
        raise HarnessError(f'envrun worker failed ({argv}): '
                           + r.stderr[-800:])
    return json.loads(r.stdout.strip().splitlines()[-1])


def main():
    prop_id = sys.argv[1]
    cases = json.load(sys.stdin)
    print(json.dumps(digests_here(prop_id, cases)))


if __name__ == '__main__':
    main()
