"""Renderers of a played no-limit hold'em hand into six poker-site log formats.

Written from the public formats restricted to the line shapes used below
(blinds, fold/check/call/bet/raise, all-ins, uncalled returns, boards, shows,
collected); each site's own convention for raises is used:
PokerStars "raises X to Y" (X = increment over the bet faced), Full Tilt
"raises to Y", PartyPoker "raises [A]" (A = chips put in by the action),
Absolute "Raises A to Y", Ongame "raises A to Y", iPoker type 23 with the
total.
"""
from __future__ import annotations

from decimal import Decimal

NAMES = ['Alice', 'Bob', 'Carol', 'Dave', 'Erin', 'Frank', 'Grace', 'Heidi',
         'Ivan']


# Thousands separators: every importer but the PokerStars one accepts
# "1,200" (the sites print large amounts that way); the C20 check switches
# this on per case for those five formats.
THOUSANDS = False


def money(x):
    if isinstance(x, Decimal):
        return f'{x:,.2f}' if THOUSANDS else f'{x:.2f}'
    return f'{x:,}' if THOUSANDS and isinstance(x, int) else str(x)


# Screen names that happen to contain the words the logs use for actions
# (single tokens, no spaces or punctuation a site would not allow)
# Names that *begin* with "calls"/"checks" ("callstation", "checksum") are the
# known finding H1 of C20 and are left out here (see known_findings.json).
TRICKY_NAMES = ['3bets4val', 'xXfoldsXx', 'recheckst', 'raisesHell',
                'McCallsen', 'allin_al', 'showsTime', 'postsman', 'wins2much']


def extract(state, seats, hero, tricky_names=False):
    """Neutral record of the hand from the source state's operation log."""
    n = state.player_count
    pool = TRICKY_NAMES if tricky_names else NAMES
    names = [pool[i] for i in range(n)]
    rec = dict(n=n, names=names, seats=seats, hero=hero,
               stacks=list(state.starting_stacks),
               final=list(state.stacks), events=[], hole={}, board=[])
    bets = [0] * n
    stacks = list(state.starting_stacks)
    live = [True] * n
    street = 0
    for o in state.operations:
        k = type(o).__name__
        if k == 'BlindOrStraddlePosting':
            i = o.player_index
            bets[i] += o.amount
            stacks[i] -= o.amount
            rec['events'].append(dict(t='blind', p=i, amount=o.amount,
                                      allin=stacks[i] == 0))
        elif k == 'HoleDealing':
            rec['hole'].setdefault(o.player_index, []).extend(o.cards)
        elif k == 'Folding':
            live[o.player_index] = False
            rec['events'].append(dict(t='fold', p=o.player_index))
        elif k == 'CheckingOrCalling':
            i = o.player_index
            bets[i] += o.amount
            stacks[i] -= o.amount
            rec['events'].append(dict(
                t='call' if o.amount else 'check', p=i, amount=o.amount,
                allin=stacks[i] == 0))
        elif k == 'CompletionBettingOrRaisingTo':
            i = o.player_index
            faced = max(bets)
            added = o.amount - bets[i]
            stacks[i] -= added
            rec['events'].append(dict(
                t='raise' if faced else 'bet', p=i, to=o.amount,
                added=added, over=o.amount - faced, own=bets[i],
                allin=stacks[i] == 0,
                cap=max(stacks[j] + bets[j] for j in range(n)
                        if j != i and live[j])))
            bets[i] = o.amount
        elif k == 'BetCollection':
            for i in range(n):
                back = bets[i] - o.bets[i]
                if back and sum(1 for s in state.statuses) and bets[i]:
                    if o.bets[i] or back != bets[i] or True:
                        pass
                if back > 0 and o.bets[i] != bets[i]:
                    # uncalled chips (a lone survivor's bet is not collected
                    # at all; his whole bet in front comes back later)
                    rec['events'].append(dict(t='uncalled', p=i,
                                              amount=back))
                    stacks[i] += back
            bets = [0] * n
        elif k == 'BoardDealing':
            street += 1
            rec['events'].append(dict(t='board', street=street,
                                      cards=list(o.cards),
                                      before=list(rec['board'])))
            rec['board'].extend(o.cards)
        elif k == 'HoleCardsShowingOrMucking':
            if o.hole_cards:
                rec['events'].append(dict(t='show', p=o.player_index,
                                          cards=list(o.hole_cards)))
            else:
                rec['events'].append(dict(t='muck', p=o.player_index))
        elif k == 'ChipsPulling':
            rec['events'].append(dict(t='collect', p=o.player_index,
                                      amount=o.amount))
    # the sites print the showdown after the last community card, also when
    # the players tabled their hands before an all-in run-out (the engine
    # logs those shows before the remaining board cards)
    ev = rec['events']
    last_board = max((i for i, e in enumerate(ev) if e['t'] == 'board'),
                     default=None)
    if last_board is not None and any(
            e['t'] in ('show', 'muck') for e in ev[:last_board]):
        shows = [e for e in ev[:last_board] if e['t'] in ('show', 'muck')]
        head = [e for e in ev[:last_board + 1]
                if e['t'] not in ('show', 'muck')]
        rec['events'] = head + shows + ev[last_board + 1:]
        rec['showdown_moved_after_runout'] = True
    return rec


def cs(cards, ten='T', sep=' '):
    out = []
    for c in cards:
        r = str(c.rank.value)
        if r == 'T':
            r = ten
        out.append(r + str(c.suit.value))
    return sep.join(out)


def _seat_lines(rec, fmt):
    order = sorted(range(rec['n']), key=lambda i: rec['seats'][i])
    return [fmt(rec['seats'][i], rec['names'][i], rec['stacks'][i])
            for i in order]


def pokerstars(rec, sb, bb, hand_id=123456789):
    N = rec['names']
    head = rec.get('ps_header') or 'Hand'
    L = [f"PokerStars {head} #{hand_id}:  Hold'em No Limit (${money(sb)}/"
         f"${money(bb)} USD) - 2020/01/02 12:34:56 ET",
         f"Table 'Alpha II' 9-max Seat #{rec['seats'][rec['n'] - 1]} is the"
         " button"]
    L += _seat_lines(rec, lambda s, nm, st:
                     f'Seat {s}: {nm} (${money(st)} in chips)')
    dealt = False
    shown = False
    nblind = 0
    for e in rec['events']:
        p = N[e['p']] if 'p' in e else None
        ai = ' and is all-in' if e.get('allin') else ''
        if e['t'] == 'blind':
            kind = 'small' if nblind == 0 and rec['n'] > 2 or (
                rec['n'] == 2 and e['p'] == 1) else 'big'
            nblind += 1
            L.append(f'{p}: posts {kind} blind ${money(e["amount"])}{ai}')
            continue
        if not dealt:
            L.append('*** HOLE CARDS ***')
            L.append(f'Dealt to {N[rec["hero"]]}'
                     f' [{cs(rec["hole"][rec["hero"]])}]')
            dealt = True
        if e['t'] == 'fold':
            L.append(f'{p}: folds')
        elif e['t'] == 'check':
            L.append(f'{p}: checks')
        elif e['t'] == 'call':
            L.append(f'{p}: calls ${money(e["amount"])}{ai}')
        elif e['t'] == 'bet':
            L.append(f'{p}: bets ${money(e["to"])}{ai}')
        elif e['t'] == 'raise':
            L.append(f'{p}: raises ${money(e["over"])} to'
                     f' ${money(e["to"])}{ai}')
        elif e['t'] == 'uncalled':
            L.append(f'Uncalled bet (${money(e["amount"])}) returned to {p}')
        elif e['t'] == 'board':
            nm = {1: 'FLOP', 2: 'TURN', 3: 'RIVER'}[e['street']]
            if e['street'] == 1:
                L.append(f'*** {nm} *** [{cs(e["cards"])}]')
            else:
                L.append(f'*** {nm} *** [{cs(e["before"])}]'
                         f' [{cs(e["cards"])}]')
        elif e['t'] == 'show':
            if not shown:
                L.append('*** SHOW DOWN ***')
                shown = True
            L.append(f'{p}: shows [{cs(e["cards"])}] (a hand)')
        elif e['t'] == 'muck':
            L.append(f'{p}: mucks hand')
        elif e['t'] == 'collect':
            L.append(f'{p} collected ${money(e["amount"])} from pot')
    L.append('*** SUMMARY ***')
    L.append('Total pot $0 | Rake $0')
    return '\n'.join(L) + '\n\n\n\n'


def fulltilt(rec, sb, bb, hand_id=1234567):
    N = rec['names']
    L = [f"Full Tilt Poker Game #{hand_id}: Table Alpha (9 max) -"
         f" ${money(sb)}/${money(bb)} - " + (
             f"${rec['cap']} Cap " if rec.get('cap') else '')
         + "No Limit Hold'em - 12:34:56 ET -"
         " 2010/01/02"]
    L += _seat_lines(rec, lambda s, nm, st: f'Seat {s}: {nm} (${money(st)})')
    dealt = False
    nblind = 0
    for e in rec['events']:
        p = N[e['p']] if 'p' in e else None
        ai = ', and is all in' if e.get('allin') else ''
        if e['t'] == 'blind':
            kind = 'small' if nblind == 0 and rec['n'] > 2 or (
                rec['n'] == 2 and e['p'] == 1) else 'big'
            nblind += 1
            L.append(f'{p} posts the {kind} blind of ${money(e["amount"])}')
            continue
        if not dealt:
            L.append(f'The button is in seat #{rec["seats"][rec["n"] - 1]}')
            L.append('*** HOLE CARDS ***')
            L.append(f'Dealt to {N[rec["hero"]]}'
                     f' [{cs(rec["hole"][rec["hero"]])}]')
            dealt = True
        if e['t'] == 'fold':
            L.append(f'{p} folds')
        elif e['t'] == 'check':
            L.append(f'{p} checks')
        elif e['t'] == 'call':
            L.append(f'{p} calls ${money(e["amount"])}{ai}')
        elif e['t'] == 'bet':
            L.append(f'{p} bets ${money(e["to"])}{ai}')
        elif e['t'] == 'raise':
            L.append(f'{p} raises to ${money(e["to"])}{ai}')
        elif e['t'] == 'uncalled':
            L.append(f'Uncalled bet of ${money(e["amount"])} returned to {p}')
        elif e['t'] == 'board':
            nm = {1: 'FLOP', 2: 'TURN', 3: 'RIVER'}[e['street']]
            if e['street'] == 1:
                L.append(f'*** {nm} *** [{cs(e["cards"])}]')
            else:
                L.append(f'*** {nm} *** [{cs(e["before"])}]'
                         f' [{cs(e["cards"])}]')
        elif e['t'] == 'show':
            L.append(f'{p} shows [{cs(e["cards"])}] a hand')
        elif e['t'] == 'muck':
            L.append(f'{p} mucks')
        elif e['t'] == 'collect':
            L.append(f'{p} wins the pot (${money(e["amount"])})')
    if not dealt:
        L.append(f'The button is in seat #{rec["seats"][rec["n"] - 1]}')
    L.append('*** SUMMARY ***')
    return '\n'.join(L) + '\n\n\n\n'


def partypoker(rec, sb, bb, hand_id=9876543210):
    N = rec['names']
    L = [f'Game #{hand_id} starts.', '', f'#Game No : {hand_id} ',
         f'***** Hand History for Game {hand_id} *****',
         f"${money(bb)} USD NL Texas Hold'em - Saturday, January 02,"
         " 12:34:56 EST 2010",
         'Table Alpha (Real Money)',
         f'Seat {rec["seats"][rec["n"] - 1]} is the button',
         f'Total number of players : {rec["n"]}/9 ']
    L += _seat_lines(rec, lambda s, nm, st:
                     f'Seat {s}: {nm} ( ${money(st)} USD )')
    dealt = False
    nblind = 0
    for e in rec['events']:
        p = N[e['p']] if 'p' in e else None
        if e['t'] == 'blind':
            kind = 'small' if nblind == 0 and rec['n'] > 2 or (
                rec['n'] == 2 and e['p'] == 1) else 'big'
            nblind += 1
            L.append(f'{p} posts {kind} blind [${money(e["amount"])} USD].')
            continue
        if not dealt:
            L.append('** Dealing down cards **')
            L.append(f'Dealt to {N[rec["hero"]]}'
                     f' [  {cs(rec["hole"][rec["hero"]])} ]')
            dealt = True
        if e['t'] == 'fold':
            L.append(f'{p} folds')
        elif e['t'] == 'check':
            L.append(f'{p} checks')
        elif e['t'] == 'call':
            if e.get('allin'):
                L.append(f'{p} is all-In  [${money(e["amount"])} USD]')
            else:
                L.append(f'{p} calls [${money(e["amount"])} USD]')
        elif e['t'] in ('bet', 'raise'):
            if e.get('allin'):
                L.append(f'{p} is all-In  [${money(e["added"])} USD]')
            elif e['t'] == 'bet':
                L.append(f'{p} bets [${money(e["added"])} USD]')
            else:
                L.append(f'{p} raises [${money(e["added"])} USD]')
        elif e['t'] == 'board':
            nm = {1: 'Flop', 2: 'Turn', 3: 'River'}[e['street']]
            L.append(f'** Dealing {nm} ** [ {cs(e["cards"], sep=", ")} ]')
        elif e['t'] == 'show':
            L.append(f'{p} shows [ {cs(e["cards"], sep=", ")} ]a hand.')
        elif e['t'] == 'muck':
            L.append(f'{p} does not show cards.')
        elif e['t'] == 'collect':
            L.append(f'{p} wins ${money(e["amount"])} USD from the main pot.')
    return '\n'.join(L) + '\n\n\n\n'


def ongame(rec, sb, bb, hand_id='R5-12345678-1'):
    N = rec['names']
    L = [f'***** History for hand {hand_id} *****',
         'Start hand: Sat Jan 02 12:34:56 GMT+0100 2010',
         f'Table: Alpha [12345] (NO_LIMIT TEXAS_HOLDEM ${money(sb)}/'
         f'${money(bb)}, Real money)',
         f'User: {N[rec["hero"]]}',
         f'Button: seat {rec["seats"][rec["n"] - 1]}',
         f'Players in round: {rec["n"]}']
    L += _seat_lines(rec, lambda s, nm, st:
                     f'Seat {s}: {nm} (${money(st)}) ')
    dealt = False
    nblind = 0
    shows = {}
    for e in rec['events']:
        p = N[e['p']] if 'p' in e else None
        ai = ' [all in]' if e.get('allin') else ''
        if e['t'] == 'blind':
            kind = 'small' if nblind == 0 and rec['n'] > 2 or (
                rec['n'] == 2 and e['p'] == 1) else 'big'
            nblind += 1
            L.append(f'{p} posts {kind} blind (${money(e["amount"])})')
            continue
        if not dealt:
            L.append('---')
            L.append('Dealing pocket cards')
            L.append(f'Dealing to {N[rec["hero"]]}:'
                     f' [{cs(rec["hole"][rec["hero"]], sep=", ")}]')
            dealt = True
        if e['t'] == 'fold':
            L.append(f'{p} folds')
        elif e['t'] == 'check':
            L.append(f'{p} checks')
        elif e['t'] == 'call':
            L.append(f'{p} calls ${money(e["amount"])}{ai}')
        elif e['t'] == 'bet':
            L.append(f'{p} bets ${money(e["to"])}{ai}')
        elif e['t'] == 'raise':
            L.append(f'{p} raises ${money(e["added"])} to'
                     f' ${money(e["to"])}{ai}')
        elif e['t'] == 'board':
            nm = {1: 'flop', 2: 'turn', 3: 'river'}[e['street']]
            L.append(f'--- Dealing {nm} [{cs(e["cards"], sep=", ")}]')
        elif e['t'] == 'show':
            shows[e['p']] = e['cards']
    L.append('---')
    L.append('Summary:')
    L.append('Rake taken: $0')
    order = sorted(range(rec['n']), key=lambda i: rec['seats'][i])
    for i in order:
        net = rec['final'][i] - rec['stacks'][i]
        sign = '+' if net > 0 else '-' if net < 0 else ''
        line = (f'Seat {rec["seats"][i]}: {N[i]} (${money(rec["final"][i])}),'
                f' net: {sign}${money(abs(net))}')
        if i in shows:
            line += f', [{cs(shows[i], sep=", ")}] (A HAND)'
        L.append(line)
    L.append(f'***** End of hand {hand_id} *****')
    return '\n'.join(L) + '\n\n\n\n'


def absolute(rec, sb, bb, hand_id=1234567890):
    N = [nm.upper() for nm in rec['names']]
    L = [f'Stage #{hand_id}: Holdem  No Limit ${money(bb)} - 2010-01-02'
         ' 12:34:56 (ET)',
         f'Table: ALPHA AVE (Real Money) Seat #{rec["seats"][rec["n"] - 1]}'
         ' is the dealer']
    order = sorted(range(rec['n']), key=lambda i: rec['seats'][i])
    for i in order:
        L.append(f'Seat {rec["seats"][i]} - {N[i]}'
                 f' (${money(rec["stacks"][i])} in chips)')
    dealt = False
    shown = False
    nblind = 0
    for e in rec['events']:
        p = N[e['p']] if 'p' in e else None
        if e['t'] == 'blind':
            kind = 'small' if nblind == 0 and rec['n'] > 2 or (
                rec['n'] == 2 and e['p'] == 1) else 'big'
            nblind += 1
            L.append(f'{p} - Posts {kind} blind ${money(e["amount"])}')
            continue
        if not dealt:
            L.append('*** POCKET CARDS ***')
            dealt = True
        if e['t'] == 'fold':
            L.append(f'{p} - Folds')
        elif e['t'] == 'check':
            L.append(f'{p} - Checks')
        elif e['t'] == 'call':
            if e.get('allin'):
                L.append(f'{p} - All-In ${money(e["amount"])}')
            else:
                L.append(f'{p} - Calls ${money(e["amount"])}')
        elif e['t'] == 'bet':
            if e.get('allin'):
                L.append(f'{p} - All-In ${money(e["added"])}')
            else:
                L.append(f'{p} - Bets ${money(e["added"])}')
        elif e['t'] == 'raise':
            if e.get('allin'):
                L.append(f'{p} - All-In(Raise) ${money(e["added"])} to'
                         f' ${money(e["to"])}')
            else:
                L.append(f'{p} - Raises ${money(e["added"])} to'
                         f' ${money(e["to"])}')
        elif e['t'] == 'uncalled':
            L.append(f'{p} - returned (${money(e["amount"])}) : not called')
        elif e['t'] == 'board':
            nm = {1: 'FLOP', 2: 'TURN', 3: 'RIVER'}[e['street']]
            if e['street'] == 1:
                L.append(f'*** {nm} *** [{cs(e["cards"], ten="10")}]')
            else:
                L.append(f'*** {nm} *** [{cs(e["before"], ten="10")}]'
                         f' [{cs(e["cards"], ten="10")}]')
        elif e['t'] == 'show':
            if not shown:
                L.append('*** SHOW DOWN ***')
                shown = True
            L.append(f'{p} - Shows [{cs(e["cards"], ten="10")}] (a hand)')
        elif e['t'] == 'muck':
            L.append(f'{p} - Mucks')
        elif e['t'] == 'collect':
            L.append(f'{p} Collects ${money(e["amount"])} from main pot')
    L.append('*** SUMMARY ***')
    L.append('Total Pot($0)')
    return '\n'.join(L) + '\n\n\n\n'


def _ip_cards(cards):
    out = []
    for c in cards:
        r = str(c.rank.value)
        if r == 'T':
            r = '10'
        out.append(str(c.suit.value) + r)
    return ' '.join(out)


def ipoker(rec, sb, bb, hand_id=1234567890):
    N = rec['names']
    shown = {e['p']: e['cards'] for e in rec['events'] if e['t'] == 'show'}
    L = ['<session sessioncode="123">',
         f'<general><gametype>Holdem NL ${money(sb)}/${money(bb)}</gametype>'
         '<tablename>Alpha, 12345</tablename><currency>USD</currency>'
         '</general>',
         f'<game gamecode="{hand_id}">', '<general>',
         '<startdate>2010-01-02 12:34:56</startdate>', '<players>']
    order = sorted(range(rec['n']), key=lambda i: rec['seats'][i])
    if rec.get('player_order'):
        # the seat is an attribute: the <player> elements may come in any
        # order (rec['player_order'] is a permutation seed)
        import random as _r
        _r.Random(rec['player_order']).shuffle(order)
    for i in order:
        win = rec['final'][i] - rec['stacks'][i]
        L.append(f'<player seat="{rec["seats"][i]}" name="{N[i]}"'
                 f' chips="${money(rec["stacks"][i])}"'
                 f' dealer="{1 if i == rec["n"] - 1 else 0}"'
                 f' win="${money(max(win, 0))}" bet="${money(0)}"'
                 ' rebuy="0" addon="0" />')
    L += ['</players>', '</general>', '<round no="0">']
    no = 0
    rnd = 0
    opened = True
    nblind = 0
    dealt = False

    def close_open(new):
        nonlocal rnd
        L.append('</round>')
        rnd = new
        L.append(f'<round no="{rnd}">')

    for e in rec['events']:
        p = N[e['p']] if 'p' in e else None
        if e['t'] == 'blind':
            no += 1
            kind = 1 if nblind == 0 and rec['n'] > 2 or (
                rec['n'] == 2 and e['p'] == 1) else 2
            nblind += 1
            L.append(f'<action no="{no}" player="{p}" type="{kind}"'
                     f' sum="${money(e["amount"])}" cards="[cards]"/>')
            continue
        if not dealt:
            close_open(1)
            for i in order:
                if i == rec['hero'] or i in shown:
                    L.append(f'<cards type="Pocket" player="{N[i]}">'
                             f'{_ip_cards(rec["hole"][i])}</cards>')
                else:
                    L.append(f'<cards type="Pocket" player="{N[i]}">X X'
                             '</cards>')
            dealt = True
        if e['t'] == 'board':
            close_open(e['street'] + 1)
            nm = {1: 'Flop', 2: 'Turn', 3: 'River'}[e['street']]
            L.append(f'<cards type="{nm}" player="">'
                     f'{_ip_cards(e["cards"])}</cards>')
            continue
        if e['t'] in ('show', 'muck', 'collect', 'uncalled'):
            continue
        no += 1
        if e['t'] == 'fold':
            t, amt = 0, 0
        elif e['t'] == 'check':
            t, amt = 4, 0
        elif e['t'] == 'call':
            t, amt = 3, e['amount']
        elif e['t'] == 'bet':
            t, amt = 5, e['to']
        else:
            t, amt = 23, e['to']
        L.append(f'<action no="{no}" player="{p}" type="{t}"'
                 f' sum="${money(amt)}" cards="[cards]"/>')
    L += ['</round>', '</game>', '</session>']
    return '\n'.join(L) + '\n'


SITES = {
    'pokerstars': (pokerstars, 'from_pokerstars'),
    'full_tilt': (fulltilt, 'from_full_tilt_poker'),
    'partypoker': (partypoker, 'from_partypoker'),
    'ongame': (ongame, 'from_ongame_network'),
    'absolute': (absolute, 'from_absolute_poker'),
    'ipoker': (ipoker, 'from_ipoker_network'),
}
