"""Coverage-guided driver (atheris / libFuzzer) for the history properties.

The fuzz target is the same executable property the Hypothesis runner uses:
``bytes -> (config from a generated pool, tape[, probe tape]) ->
mod.check(case)``; the semantic oracle runs inside the target, libFuzzer only
supplies inputs and keeps those that reach new pokerkit code (``pokerkit`` is
the only instrumented package).  The first two bytes pick one of ~200 configs
drawn beforehand from the property's own Hypothesis strategy (fixed seed), the
remaining bytes are the tape itself, so a byte mutation is a changed player
decision (a first version decoded the bytes through Hypothesis'
``fuzz_one_input``; measured, it only ever produced short default-heavy tapes
and missed a seeded defect the plain Hypothesis run finds, so it was
replaced).  Half of the worker processes start from an empty corpus, half
from the pool's own generated tapes.

  python -m pkv.fuzz worker C07 WORKDIR RUNS SEED     one libFuzzer process
  campaign(prop, ...)                                  N workers, merged

A worker writes ``WORKDIR/stats.json`` (every 100 executions and at the end)
and, when the oracle reports a violation that is not a listed known finding,
``WORKDIR/violation.json`` = {v, case} with the tape minimised by a small
delta-debugging loop (the fuzzer does not shrink); it then leaves with exit
code 77.  The campaign turns these into replay files / VIOLATION lines.

libFuzzer's ``-seed`` and ``-runs`` pin a campaign only approximately (the
guidance says so); the reproducible unit is the saved case, replayed by
``./check Cxx --replay FILE`` without atheris or Hypothesis.
"""
from __future__ import annotations

import json
import os
import shutil
import subprocess
import sys
import tempfile
import time

from . import VERIF

DEPS = os.path.join(VERIF, '.deps')
WHEELS = '/opt/veriftools/wheels'


def ensure_atheris():
    """Import atheris, installing the offline wheel beside the package when
    it is missing (``/verif/.deps`` is ignored by git)."""
    if DEPS not in sys.path:
        sys.path.append(DEPS)
    try:
        import atheris  # noqa: F401
        return True
    except ImportError:
        pass
    try:
        subprocess.run(
            [sys.executable, '-m', 'pip', 'install', '-q', '--no-index',
             '--find-links', WHEELS, '--target', DEPS, 'atheris'],
            check=True, capture_output=True, timeout=300)
        import importlib
        importlib.invalidate_caches()
        import atheris  # noqa: F401
        return True
    except Exception:  # noqa: BLE001
        return False


# ---------------------------------------------------------------------------
# tape minimisation (ddmin-like; config untouched)

def _same(mod, case, target):
    from .runner import Stats
    try:
        vs = mod.check(case, Stats())
    except Exception:  # noqa: BLE001
        return None
    for v in vs:
        if (v.prop, v.kind) == target:
            return v
    return None


def minimise(mod, case, v, budget_s=60):
    """Shorten the tape(s) of a failing case while the same (property, kind)
    is still reported."""
    t0 = time.time()
    target = (v.prop, v.kind)
    best, best_v = case, v
    for key in [k for k in ('tape', 'probes') if isinstance(case.get(k), list)]:
        tape = list(best[key])
        # 1. truncate
        n = len(tape)
        step = max(1, n // 2)
        while step >= 1 and time.time() - t0 < budget_s:
            cut = tape[:max(0, len(tape) - step)]
            if len(cut) < len(tape):
                cand = dict(best, **{key: cut})
                r = _same(mod, cand, target)
                if r is not None:
                    tape, best, best_v = cut, cand, r
                    continue
            step //= 2
        # 2. zero single values (0 = default choice)
        for i in range(len(tape)):
            if time.time() - t0 > budget_s:
                break
            if tape[i] == 0:
                continue
            cand_t = tape[:i] + [0] + tape[i + 1:]
            cand = dict(best, **{key: cand_t})
            r = _same(mod, cand, target)
            if r is not None:
                tape, best, best_v = cand_t, cand, r
    return best, best_v


# ---------------------------------------------------------------------------
# worker

def build_pool(mod, tier, seed, size):
    """A deterministic pool of generated cases (configs with their tapes and
    extras) drawn from the property's own Hypothesis strategy."""
    from hypothesis import HealthCheck, Phase, given, settings
    from hypothesis import seed as hseed
    pool = []

    @hseed(seed)
    @settings(database=None, deadline=None, max_examples=size,
              phases=(Phase.generate,),
              suppress_health_check=list(HealthCheck))
    @given(mod.strategy(tier))
    def collect(case):
        pool.append(case)

    collect()
    return pool


def encode(idx, case):
    """Pool index + tapes -> bytes (the inverse of ``decode`` up to tape
    length): 2 bytes pool index, then 16-bit big-endian tape values; a second
    tape (``probe``) is interleaved value by value."""
    tapes = [list(case.get('tape') or [])]
    if isinstance(case.get('probe'), list):
        tapes.append(list(case['probe']))
    n = max(len(t) for t in tapes)
    out = bytearray(idx.to_bytes(2, 'big'))
    for i in range(n):
        for t in tapes:
            out += (t[i] if i < len(t) else 0).to_bytes(2, 'big')
    return bytes(out)


def decode(data, pool):
    """bytes -> case: the first two bytes choose a generated config (with its
    extras) from the pool, the rest is the tape (and the probe tape, value by
    value interleaved).  Every byte string is a valid case, so libFuzzer's
    mutations act directly on the players' decisions."""
    if len(data) < 2:
        data = data + b'\0' * (2 - len(data))
    base = pool[int.from_bytes(data[:2], 'big') % len(pool)]
    vals = [int.from_bytes(data[i:i + 2], 'big')
            for i in range(2, len(data) - 1, 2)]
    case = dict(base)
    if isinstance(base.get('probe'), list):
        case['tape'] = vals[0::2]
        case['probe'] = vals[1::2]
    else:
        case['tape'] = vals
    return case


def worker(prop_id, workdir, runs, seed, tier='thorough', max_len=1024,
           seed_corpus=True, pool_size=192):
    if not ensure_atheris():
        print('atheris unavailable')
        return 3
    import atheris
    with atheris.instrument_imports(include=['pokerkit']):
        import pokerkit  # noqa: F401
        import pokerkit.state  # noqa: F401
        import pokerkit.notation  # noqa: F401
        import pokerkit.analysis  # noqa: F401
    from .runner import Stats, load_known, load_prop
    mod = load_prop(prop_id)
    stats = Stats()
    ignore = {(k['property'], k['kind'], k.get('key', ''))
              for k in load_known() if k.get('status') == 'known'}
    known_hits = {}
    state = dict(n=0, t0=time.time())
    stats_path = os.path.join(workdir, 'stats.json')
    pool = build_pool(mod, tier, seed, pool_size)

    def dump():
        out = stats.export()
        out['known_hits'] = [[list(k), c] for k, c in known_hits.items()]
        out['wall_s'] = round(time.time() - state['t0'], 1)
        tmp = stats_path + '.tmp'
        with open(tmp, 'w') as f:
            json.dump(out, f, default=repr)
        os.replace(tmp, stats_path)

    def test_one_input(data):
        case = decode(data, pool)
        stats.evaluations += 1
        state['n'] += 1
        viols = mod.check(case, stats)
        for v in viols:
            if v.sig in ignore:
                known_hits[v.sig] = known_hits.get(v.sig, 0) + 1
                continue
            case2, v2 = minimise(mod, case, v)
            with open(os.path.join(workdir, 'violation.json'), 'w') as f:
                json.dump(dict(v=v2.as_dict(), case=case2), f, default=repr)
            dump()
            sys.stdout.flush()
            os._exit(77)
        if state['n'] % 100 == 0:
            dump()
        if state['n'] >= runs:
            dump()
            sys.stdout.flush()
            os._exit(0)

    corpus = os.path.join(workdir, 'corpus')
    os.makedirs(corpus, exist_ok=True)
    if seed_corpus:
        # small valid inputs: the pool's own generated tapes
        for i, c in enumerate(pool):
            with open(os.path.join(corpus, f'pool{i:04d}'), 'wb') as f:
                f.write(encode(i, c)[:max_len])
    argv = [sys.argv[0], f'-seed={seed}', f'-max_len={max_len}',
            f'-artifact_prefix={workdir}/', '-print_final_stats=0',
            '-verbosity=0', '-timeout=120', '-rss_limit_mb=4096', corpus]
    atheris.Setup(argv, test_one_input)
    atheris.Fuzz()
    return 0


# ---------------------------------------------------------------------------
# campaign

def campaign(prop_id, nproc, runs_per_proc, seed, wall_s, tier='thorough',
             pool_size=192):
    """Run ``nproc`` libFuzzer processes with distinct seeds and fresh corpus
    directories; return (stats dicts, violations [(vdict, case)], info)."""
    if not ensure_atheris():
        return [], [], dict(available=False, note='atheris wheel missing')
    root = tempfile.mkdtemp(prefix='pkv-fuzz-')
    procs = []
    env = dict(os.environ, PYTHONHASHSEED='0', PYTHONDONTWRITEBYTECODE='1')
    env['PYTHONPATH'] = os.pathsep.join(
        [VERIF, DEPS] + [p for p in env.get('PYTHONPATH', '').split(os.pathsep)
                         if p])
    try:
        for i in range(nproc):
            wd = os.path.join(root, f'w{i}')
            os.makedirs(wd)
            s = (seed * 7919 + i * 104729 + 1) % (2 ** 31 - 1) or 1
            log = open(os.path.join(wd, 'log'), 'w')
            p = subprocess.Popen(
                [sys.executable, '-m', 'pkv.fuzz', 'worker', prop_id, wd,
                 str(runs_per_proc), str(s), tier,
                 'seeded' if i % 2 == 0 else 'empty', str(pool_size)],
                cwd=wd, env=env, stdout=log, stderr=subprocess.STDOUT)
            procs.append((p, wd, log, s))
        deadline = time.time() + wall_s
        for p, wd, log, s in procs:
            left = deadline - time.time()
            try:
                p.wait(timeout=max(1, left))
            except subprocess.TimeoutExpired:
                p.kill()
                p.wait()
        all_stats, viols, codes = [], [], []
        errors = []
        for p, wd, log, s in procs:
            log.close()
            codes.append(p.returncode)
            sp = os.path.join(wd, 'stats.json')
            if os.path.exists(sp):
                with open(sp) as f:
                    all_stats.append(json.load(f))
            vp = os.path.join(wd, 'violation.json')
            if os.path.exists(vp):
                with open(vp) as f:
                    rec = json.load(f)
                viols.append((rec['v'], rec['case']))
            elif p.returncode not in (0, 77, -9):
                with open(os.path.join(wd, 'log')) as f:
                    errors.append(f'worker seed={s} exit={p.returncode}: '
                                  + f.read()[-1500:])
        info = dict(available=True, processes=nproc, exit_codes=codes,
                    runs_per_process=runs_per_proc, wall_budget_s=wall_s,
                    errors=errors)
        return all_stats, viols, info
    finally:
        shutil.rmtree(root, ignore_errors=True)


if __name__ == '__main__':
    if len(sys.argv) >= 6 and sys.argv[1] == 'worker':
        _, _, pid, wd, runs, seed = sys.argv[:6]
        tier = sys.argv[6] if len(sys.argv) > 6 else 'thorough'
        seeded = (sys.argv[7] if len(sys.argv) > 7 else 'seeded') == 'seeded'
        psize = int(sys.argv[8]) if len(sys.argv) > 8 else 192
        del sys.argv[1:]
        sys.exit(worker(pid, wd, int(runs), int(seed), tier,
                        seed_corpus=seeded, pool_size=psize))
    print(__doc__)
    sys.exit(2)
