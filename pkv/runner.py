"""Sharded Hypothesis runner, evidence writer, replay files, known findings."""
from __future__ import annotations

import hashlib
import importlib
import json
import multiprocessing as mp
import os
import sys
import time
import traceback
from fractions import Fraction
from decimal import Decimal

from . import VERIF

NSHARDS = int(os.environ.get('PKV_SHARDS', '16'))
KNOWN_FILE = os.path.join(VERIF, 'known_findings.json')
EVIDENCE_DIR = os.environ.get('PKV_EVIDENCE_DIR') or os.path.join(
    VERIF, 'evidence')
REPLAY_DIR = os.environ.get('PKV_REPLAY_DIR') or os.path.join(
    VERIF, 'replays')
REGRESS_DIR = os.path.join(VERIF, 'regress')


class V:
    """A violation record."""

    __slots__ = ('prop', 'kind', 'key', 'message')

    def __init__(self, prop, kind, key='', message=''):
        self.prop = prop
        self.kind = kind
        self.key = str(key)
        self.message = str(message)

    @property
    def sig(self):
        return (self.prop, self.kind, self.key)

    def as_dict(self):
        return dict(property=self.prop, kind=self.kind, key=self.key,
                    message=self.message)

    def __repr__(self):
        return f'V({self.prop}, {self.kind}, {self.key}, {self.message})'


class Stats:
    def __init__(self):
        self.counts = {}
        self.nontrivial = set()
        self.samples = []
        self.trivial_samples = []
        self.evaluations = 0

    def count(self, label, n=1):
        self.counts[label] = self.counts.get(label, 0) + n

    def mark_nontrivial(self, key):
        h = hashlib.blake2b(repr(key).encode(), digest_size=8).hexdigest()
        self.nontrivial.add(h)

    def sample(self, obj, nontrivial=True, limit=3):
        tgt = self.samples if nontrivial else self.trivial_samples
        if len(tgt) < limit:
            tgt.append(obj)

    def merge(self, other):
        for k, v in other['counts'].items():
            self.counts[k] = self.counts.get(k, 0) + v
        self.nontrivial |= set(other['nontrivial'])
        self.evaluations += other['evaluations']
        for s in other['samples']:
            if len(self.samples) < 4:
                self.samples.append(s)
        for s in other['trivial_samples']:
            if len(self.trivial_samples) < 2:
                self.trivial_samples.append(s)

    def export(self):
        return dict(counts=self.counts, nontrivial=list(self.nontrivial),
                    samples=self.samples, evaluations=self.evaluations,
                    trivial_samples=self.trivial_samples)


def jsonable(o):
    if isinstance(o, (Fraction, Decimal)):
        return str(o)
    if isinstance(o, (set, frozenset, tuple)):
        return list(o)
    return repr(o)


def load_known():
    try:
        with open(KNOWN_FILE) as f:
            return json.load(f).get('findings', [])
    except FileNotFoundError:
        return []


def known_match(v, known):
    for k in known:
        if k.get('status') != 'known':
            continue
        if k['property'] != v.prop or k['kind'] != v.kind:
            continue
        if k.get('key') and k['key'] != v.key:
            continue
        return k
    return None


def load_prop(prop_id):
    return importlib.import_module(f'pkv.props.{prop_id.lower()}')


class _Failure(Exception):
    pass


def _run_hypothesis(mod, strategy, hseed, n, stats, ignore, shrink_s,
                    deadline, known_hits):
    from hypothesis import HealthCheck, Phase, Verbosity, given, seed, settings

    st = {'target': None, 'best': None, 'best_v': None, 't0': None,
          'gen': 0}

    @seed(hseed)
    @settings(
        max_examples=n, database=None, deadline=None,
        report_multiple_bugs=False, derandomize=False,
        suppress_health_check=list(HealthCheck), verbosity=Verbosity.quiet,
        phases=(Phase.generate, Phase.shrink),
    )
    @given(strategy)
    def test(case):
        shrinking = st['target'] is not None
        if shrinking:
            if time.time() - st['t0'] > shrink_s:
                if case == st['best']:
                    raise _Failure()
                return
            local = Stats()
        else:
            if time.time() > deadline:
                stats.count('skipped_time_budget')
                return
            local = stats
            st['gen'] += 1
            stats.evaluations += 1
        viols = mod.check(case, local)
        for v in viols:
            if v.sig in ignore:
                if not shrinking:
                    known_hits[v.sig] = known_hits.get(v.sig, 0) + 1
                continue
            if shrinking and (v.prop, v.kind) != st['target']:
                continue
            if not shrinking:
                st['target'] = (v.prop, v.kind)
                st['t0'] = time.time()
            st['best'] = case
            st['best_v'] = v
            raise _Failure()

    try:
        test()
    except _Failure:
        pass
    except Exception:  # noqa: BLE001
        # a harness error inside check(), or Hypothesis reporting a replay
        # problem after we already hold a failing case
        if st['best'] is None:
            raise
    return st


def _shard_worker(args):
    prop_id, tier, seed, shard, nshards, n, wall = args
    try:
        mod = load_prop(prop_id)
        stats = Stats()
        known = load_known()
        ignore = set()
        known_sigs = {}
        for k in known:
            if k.get('status') == 'known':
                ignore.add((k['property'], k['kind'], k.get('key', '')))
        found = []
        known_hits = {}
        remaining = n
        attempt = 0
        deadline = time.time() + wall
        strategy = mod.strategy(tier)
        shrink_s = 45 if tier == 'quick' else 240
        while remaining > 0 and attempt < 4 and time.time() < deadline:
            hseed = (seed * 1000003 + shard * 7919 + attempt * 104729) \
                % (2 ** 63)
            st = _run_hypothesis(mod, strategy, hseed, remaining, stats,
                                 ignore, shrink_s, deadline, known_hits)
            remaining -= max(st['gen'], 1)
            attempt += 1
            if st['best_v'] is None:
                break
            v = st['best_v']
            found.append(dict(v=v.as_dict(), case=st['best']))
            ignore.add(v.sig)
        return dict(ok=True, stats=stats.export(), found=found,
                    known_hits=[[list(k), c] for k, c in known_hits.items()],
                    shard=shard)
    except BaseException:  # noqa: BLE001
        return dict(ok=False, error=traceback.format_exc(), shard=shard)


def write_replay(v, case):
    os.makedirs(REPLAY_DIR, exist_ok=True)
    body = json.dumps(dict(v, case=case), default=jsonable, sort_keys=True)
    h = hashlib.blake2b(body.encode(), digest_size=5).hexdigest()
    path = os.path.join(REPLAY_DIR, f"{v['property']}-{v['kind']}-{h}.json")
    with open(path, 'w') as f:
        f.write(json.dumps(dict(v, case=case), default=jsonable, indent=1,
                           sort_keys=True))
    return path


def regress_cases(prop_id):
    d = os.path.join(REGRESS_DIR, prop_id)
    out = []
    if os.path.isdir(d):
        for name in sorted(os.listdir(d)):
            if name.endswith('.json'):
                with open(os.path.join(d, name)) as f:
                    out.append((os.path.join(d, name), json.load(f)))
    return out


def run(prop_id, tier='quick', seed=1, replay=None):
    t0 = time.time()
    mod = load_prop(prop_id)
    known = load_known()
    violations = []       # (vdict, case, path)
    known_lines = {}
    total = Stats()
    harness_errors = []

    def handle(vs, case, origin=None):
        for v in vs:
            k = known_match(v, known)
            if k is not None:
                known_lines[(v.prop, v.kind, v.key)] = k
                continue
            violations.append((v.as_dict(), case, origin))

    if replay is not None:
        with open(replay) as f:
            rec = json.load(f)
        case = rec['case'] if 'case' in rec else rec
        st = Stats()
        vs = mod.check(case, st)
        handle(vs, case, replay)
        for v, case, origin in violations:
            print(f"VIOLATION property={v['property']} replay={origin}"
                  f" kind={v['kind']} key={v['key']} :: {v['message']}")
        for (p, kd, ky), k in known_lines.items():
            print(f"KNOWN-FINDING: property={p} {k.get('what', kd)}")
        if not violations:
            print(f'replay {replay}: property held')
        return 1 if violations else 0

    # 1. regression tier: saved cases, no Hypothesis
    nreg = 0
    for path, rec in regress_cases(prop_id):
        case = rec['case'] if 'case' in rec else rec
        st = Stats()
        vs = mod.check(case, st)
        nreg += 1
        handle(vs, case, path)
    # 2. deterministic / exhaustive parts
    extra_info = {}
    if hasattr(mod, 'extra'):
        vs, info = mod.extra(tier, seed, total)
        extra_info = info or {}
        for v in vs:
            # an extra part may attach the failing case: (V, case)
            if isinstance(v, tuple):
                handle([v[0]], v[1], None)
            else:
                handle([v], None, None)
    # 3. generated search
    b = mod.budget(tier)
    n = b.get('examples', 0)
    wall = b.get('wall', 120 if tier == 'quick' else 1500)
    shard_info = []
    if n:
        nsh = min(NSHARDS, max(1, n // 20))
        per = -(-n // nsh)
        jobs = [(prop_id, tier, seed, i, nsh, per, wall) for i in range(nsh)]
        ctx = mp.get_context('fork')
        with ctx.Pool(nsh) as pool:
            results = pool.map(_shard_worker, jobs, chunksize=1)
        for r in results:
            if not r['ok']:
                harness_errors.append(r['error'])
                continue
            total.merge(r['stats'])
            shard_info.append(dict(shard=r['shard'],
                                   evaluations=r['stats']['evaluations']))
            for f in r['found']:
                v = V(f['v']['property'], f['v']['kind'], f['v']['key'],
                      f['v']['message'])
                handle([v], f['case'], None)
            for sig, c in r['known_hits']:
                p, kd, ky = sig
                for k in known:
                    if (k['property'], k['kind'], k.get('key', '')) == \
                            (p, kd, ky) and k.get('status') == 'known':
                        known_lines[(p, kd, ky)] = k
                        total.count(f'known_finding:{kd}', c)
    # 4. coverage-guided campaign (atheris/libFuzzer) where the module asks
    fuzz_info = None
    fz = getattr(mod, 'FUZZ', {}).get(tier)
    if fz and os.environ.get('PKV_NO_FUZZ') != '1':
        from . import fuzz as _fuzz
        fstats, fviols, fuzz_info = _fuzz.campaign(
            prop_id, min(fz.get('procs', NSHARDS), NSHARDS), fz['runs'], seed,
            fz['wall'],
            tier, fz.get('pool', 192))
        execs = 0
        for fs in fstats:
            execs += fs['evaluations']
            total.merge(fs)
            for sig, c in fs.get('known_hits', []):
                p, kd, ky = sig
                for k in known:
                    if (k['property'], k['kind'], k.get('key', '')) == \
                            (p, kd, ky) and k.get('status') == 'known':
                        known_lines[(p, kd, ky)] = k
                        total.count(f'known_finding:{kd}', c)
        fuzz_info['executions'] = execs
        for vd, case in fviols:
            v = V(vd['property'], vd['kind'], vd['key'], vd['message'])
            handle([v], case, None)
        if fuzz_info.get('errors'):
            harness_errors.extend(fuzz_info['errors'])
    # always demonstrate listed known findings of this property
    if hasattr(mod, 'demonstrate_known'):
        for k in known:
            if k['property'] == prop_id and k.get('status') == 'known':
                if mod.demonstrate_known(k):
                    known_lines[(prop_id, k['kind'], k.get('key', ''))] = k
    wall_s = time.time() - t0

    if harness_errors:
        for e in harness_errors:
            sys.stderr.write(e + '\n')
        print(f'HARNESS-ERROR property={prop_id}'
              f' ({len(harness_errors)} shard(s) failed)')
        return 2

    # de-duplicate violations by signature, write replays
    seen = {}
    for v, case, origin in violations:
        sig = (v['property'], v['kind'], v['key'])
        if sig in seen:
            continue
        path = origin or write_replay(v, case)
        seen[sig] = (v, path)
    # evidence
    samples = (total.samples + total.trivial_samples)[:5]
    cov = dict(
        evaluations=int(total.evaluations + nreg
                        + extra_info.get('evaluations', 0)),
        distinct_nontrivial=int(len(total.nontrivial)
                                + extra_info.get('distinct_nontrivial', 0)),
        rule=mod.RULE,
        samples=samples + extra_info.get('samples', []),
        classes=dict(sorted(total.counts.items())),
        regression_cases=nreg,
        shards=shard_info,
        exhaustive=bool(extra_info.get('exhaustive', False)),
    )
    if fuzz_info is not None:
        cov['coverage_guided'] = fuzz_info
    for k, val in extra_info.items():
        if k not in ('evaluations', 'distinct_nontrivial', 'samples',
                     'exhaustive'):
            cov[k] = val
    ev = dict(
        property_id=prop_id, tier=tier, seed=int(seed), level='exploration',
        coverage=cov,
        assumptions=list(getattr(mod, 'ASSUMPTIONS', [])),
        wall_s=round(wall_s, 2), violations=len(seen),
        known_findings=[k.get('what', '') for k in known_lines.values()],
    )
    os.makedirs(EVIDENCE_DIR, exist_ok=True)
    with open(os.path.join(EVIDENCE_DIR, f'{prop_id}.json'), 'w') as f:
        json.dump(ev, f, default=jsonable, indent=1, sort_keys=True)
    for (p, kd, ky), k in known_lines.items():
        print(f"KNOWN-FINDING: property={p} {k.get('what', kd)}")
    for sig, (v, path) in seen.items():
        print(f"VIOLATION property={v['property']} replay={path}"
              f" kind={v['kind']} key={v['key']} :: {v['message'][:300]}")
    print(f"{prop_id} {tier} seed={seed}: evaluations={cov['evaluations']}"
          f" nontrivial={cov['distinct_nontrivial']}"
          f" violations={len(seen)} wall={wall_s:.1f}s")
    return 1 if seen else 0
