"""C19 - equivalent ways of writing chips and cards mean the same thing.

(1) every card text round trips (exhaustive); (2) a chip layout written as a
scalar, list, tuple, generator or position->amount mapping creates the same
state as the explicit per-player list (twin states with the same shuffle);
(3) cards given as objects, iterables or text denote the same cards when
dealt; (4) invalid layouts are rejected at construction with ValueError;
(5) the default divmod and rake helpers return parts that add up.
"""
from __future__ import annotations

import random
import warnings
from decimal import Decimal
from fractions import Fraction

from hypothesis import strategies as st

from ..engine import snapshot, snapshot_diff, patch_shuffled
from ..runner import V
from ..engine import is_engine_exception as _is_engine_exception

import pokerkit
from pokerkit import (
    Automation,
    BettingStructure,
    Card,
    Deck,
    Mode,
    NoLimitTexasHoldem,
    Opening,
    Rank,
    State,
    Street,
    Suit,
)
from pokerkit.utilities import clean_values, divmod as pk_divmod, rake

ID = 'C19'
RULE = (
    'exhaustive part: all 14 x 5 rank x suit cards (incl. unknowns) - repr'
    ' parses back to the card; "10x" == "Tx"; separators ignored. Generated'
    ' part: (a) per-player vectors rewritten as scalar / list / tuple /'
    ' generator / longer list / zero-trimmed shorter list / mapping with'
    ' mixed positive and negative keys and zeros omitted, for antes, blinds'
    ' and stacks -> same cleaned vectors and same initial state (same'
    ' seed); (b) card arguments as Card objects, tuples, lists, generators,'
    ' and text with spaces, commas and "10" -> same dealing records and'
    ' states; (c) invalid layouts of each documented class (negative ante,'
    ' non-positive stack, blinds with bring-in, no forced bet, < 2 players)'
    ' -> ValueError at construction; (d) divmod: q*d + r == amount, rake:'
    ' 0 <= raked <= amount and raked + unraked == amount (exact for int and'
    ' Fraction). Non-trivial = representation other than the explicit list,'
    ' or an invalid layout; distinct = distinct inputs.'
)
ASSUMPTIONS = ['mappings do not address the same position twice']

A = Automation
FULL = tuple(A)


def extra(tier, seed, stats):
    viols = []
    n = 0
    for r in Rank:
        for su in Suit:
            c = Card(r, su)
            n += 1
            try:
                back = list(Card.parse(repr(c)))
            except Exception as e:  # noqa: BLE001
                if not _is_engine_exception(e):
                    raise     # harness fault: exit 2
                viols.append(V(ID, 'card_text', 'parse_raised',
                               f'Card.parse({repr(c)!r}) raised {e!r}'))
                continue
            if back != [c]:
                viols.append(V(ID, 'card_text', 'round_trip',
                               f'Card.parse({repr(c)!r}) = {back!r}'))
            if tuple(Card.clean(repr(c))) != (c,):
                viols.append(V(ID, 'card_text', 'clean',
                               f'Card.clean({repr(c)!r})'))
    for su in 'cdhs?':
        n += 1
        if list(Card.parse('10' + su)) != list(Card.parse('T' + su)):
            viols.append(V(ID, 'card_text', 'ten', f'10{su}'))
    base = list(Card.parse('AsKs10dTc2h'))
    for text in ('As Ks 10d Tc 2h', 'As,Ks,10d,Tc,2h', 'As, Ks, Td,Tc 2h',
                 ' AsKs Td Tc2h ', 'AsKsTdTc2h'):
        n += 1
        if list(Card.parse(text)) != base:
            viols.append(V(ID, 'card_text', 'separators', text))
    uniq = {}
    for v in viols:
        uniq.setdefault((v.kind, v.key), v)
    return list(uniq.values()), dict(evaluations=n, distinct_nontrivial=n,
                                     exhaustive=True, samples=[
                                         dict(card='A?'), dict(card='10s')])


# ---- generated -------------------------------------------------------------

def represent(draw, v):
    """an equivalent way of writing the per-player vector v"""
    n = len(v)
    opts = ['list', 'tuple', 'gen', 'dict', 'longer']
    if len(set(v)) == 1:
        opts.append('scalar')
    if v and v[-1] == 0:
        opts.append('shorter')
    how = draw(st.sampled_from(opts))
    if how == 'list':
        return how, list(v)
    if how == 'tuple':
        return how, tuple(v)
    if how == 'gen':
        return how, ('gen', list(v))
    if how == 'scalar':
        return how, v[0]
    if how == 'longer':
        return how, list(v) + [draw(st.integers(0, 9))
                               for _ in range(draw(st.integers(1, 3)))]
    if how == 'shorter':
        w = list(v)
        while w and w[-1] == 0:
            w.pop()
        return how, w
    d = {}
    for i, x in enumerate(v):
        if x == 0 and draw(st.booleans()):
            continue
        key = i - n if draw(st.booleans()) else i
        d[key] = x
    return how, d


def materialise(rep):
    if isinstance(rep, (tuple, list)) and len(rep) == 2 \
            and rep[0] == 'gen':
        return (x for x in rep[1])
    if isinstance(rep, dict):
        return {int(k): v for k, v in rep.items()}
    return rep


@st.composite
def layout_case(draw):
    n = draw(st.integers(2, 7))
    bb = draw(st.sampled_from([2, 4, 10]))
    antes = draw(st.sampled_from([
        [0] * n, [1] * n, [0, bb] + [0] * (n - 2), [0] * (n - 1) + [bb],
        [draw(st.integers(0, 3)) for _ in range(n)]]))
    blinds = [bb // 2, bb] + [0] * (n - 2)
    if n > 3 and draw(st.booleans()):
        blinds[-1] = 2 * bb
    if n > 2 and draw(st.booleans()):
        blinds[2] = 2 * bb
    stacks = draw(st.sampled_from([
        [100] * n, [draw(st.integers(1, 300)) for _ in range(n)]]))
    reps = {}
    for name, v in (('antes', antes), ('blinds', blinds),
                    ('stacks', stacks)):
        how, rep = represent(draw, v)
        if name == 'stacks' and how in ('dict', 'shorter'):
            how, rep = 'list', list(v)     # every stack must be positive
        reps[name] = (how, rep)
    game = draw(st.sampled_from(['NT', 'NT', 'FT', 'NR', 'NS', 'PO', 'FO8',
                                 'F7S', 'F7S8', 'FR', 'N2L1D', 'F2L3D',
                                 'FB']))
    if game in ('F7S', 'F7S8', 'FR'):
        blinds = [0] * n
        reps['blinds'] = ('list', blinds)
        if not any(antes):
            antes = [1] * n
            reps['antes'] = represent(draw, antes)
    return dict(kind='layout', n=n, bb=bb, antes=antes, blinds=blinds,
                stacks=stacks, reps={k: [h, r] for k, (h, r) in reps.items()},
                seed=draw(st.integers(0, 10 ** 6)), game=game,
                route=draw(st.sampled_from(['create_state', 'game_call',
                                            'game_reuse'])),
                chip=draw(st.sampled_from(['int', 'int', 'float', 'frac',
                                           'dec'])))


CARD_TEXT = [r + s for r in '23456789TJQKA' for s in 'cdhs']


@st.composite
def cards_case(draw):
    k = draw(st.integers(1, 3))
    cards = draw(st.lists(st.sampled_from(CARD_TEXT), min_size=k, max_size=k,
                          unique=True))
    form = draw(st.sampled_from(['objects', 'tuple', 'gen', 'text',
                                 'spaces', 'commas', 'ten', 'single']))
    where = draw(st.sampled_from(['hole', 'board', 'burn']))
    if where != 'board' and draw(st.integers(0, 3)) == 0:
        # an unknown card (what a hand history writes for an unseen card):
        # the card object is falsy, the text is not
        cards[0] = draw(st.sampled_from(['??', '??', 'A?', '?h']))
    return dict(kind='cards', cards=cards, form=form,
                where=where,
                seed=draw(st.integers(0, 10 ** 6)))


@st.composite
def invalid_case(draw):
    cls = draw(st.sampled_from(['negative_ante', 'non_positive_stack',
                                'blinds_with_bring_in', 'no_forced_bet',
                                'too_few_players', 'negative_bring_in']))
    n = draw(st.integers(2, 6))
    return dict(kind='invalid', cls=cls, n=n,
                i=draw(st.integers(0, n - 1)),
                x=draw(st.integers(1, 5)),
                via=draw(st.sampled_from(['list', 'dict', 'scalar'])),
                layout=draw(st.sampled_from(['blinds', 'bring_in'])),
                autos=draw(st.sampled_from(['full', 'none'])))


@st.composite
def helper_case(draw):
    t = draw(st.sampled_from(['int', 'frac', 'float', 'dec']))
    amt = draw(st.integers(0, 10 ** 5))
    div = draw(st.integers(1, 9))
    num, den = draw(st.sampled_from([(0, 1), (1, 100), (3, 100), (5, 100),
                                     (1, 10), (1, 4), (1, 2), (1, 1),
                                     (15, 100)]))
    cap = draw(st.sampled_from([None, 0, 1, 3, 10, 1000]))
    return dict(kind='helpers', t=t, amount=amt, divisor=div, pct=[num, den],
                cap=cap)


@st.composite
def hands_case(draw):
    """Entry points that evaluate cards: the same cards in any documented
    spelling must give the same hand (or the same refusal)."""
    from .c05 import c05_case
    c = draw(c05_case())
    return dict(kind='hands', cls=c['cls'], hole=c['hole'], board=c['board'],
                hole_form=c['hole_form'], board_form=c['board_form'])


@st.composite
def card_text_case(draw):
    """Arbitrary text over the card alphabet: accepted text denotes cards
    whose own text parses back to them; anything else is refused with
    ValueError (never another exception)."""
    return dict(kind='card_text', text=draw(st.text(
        alphabet='AKQJT98765432akqjtcdhs? ,10xX', max_size=12)))


def budget(tier):
    if tier == 'quick':
        return dict(examples=20000, wall=90)
    return dict(examples=200000, wall=1200)


def strategy(tier):
    return st.one_of(layout_case(), cards_case(), invalid_case(),
                     helper_case(), hands_case(), card_text_case())


def _conv(v, chip):
    """The same numbers in another numeric type."""
    f = {'int': int, 'float': float, 'frac': Fraction,
         'dec': Decimal}[chip or 'int']
    if isinstance(v, dict):
        return {k: f(x) for k, x in v.items()}
    if isinstance(v, (list, tuple)):
        return type(v)(f(x) for x in v)
    if hasattr(v, '__next__'):
        return (f(x) for x in v)
    return f(v)


def _state(antes, blinds, stacks, n, bb, seed, autos=FULL, game='NT',
           route='create_state', chip='int', warm=None):
    """Any of the twelve predefined variants, through ``create_state`` or
    through a game object that is then called with (stacks, player count)."""
    from ..engine import GAMES
    random.seed(seed)
    cls_name, sig, _, _, _ = GAMES[game]
    cls = getattr(pokerkit, cls_name)
    if sig == 'blinds1':
        head = (autos, False, antes, blinds, bb)
    elif sig == 'blinds2':
        head = (autos, False, antes, blinds, bb, 2 * bb)
    else:
        # stud: antes + bring-in, no blinds
        head = (autos, False, antes, max(1, bb // 2), bb, 2 * bb)
    head = tuple(_conv(x, chip) if i >= 2 else x
                 for i, x in enumerate(head))
    stacks = _conv(stacks, chip)
    if route == 'create_state':
        return cls.create_state(*head, stacks, n, mode=Mode.CASH_GAME)
    g = cls(*head, mode=Mode.CASH_GAME)
    if route == 'game_reuse' and warm is not None:
        # a long-lived game object: it has already created a state for this
        # player count with *other* forced bets, then the public layout
        # attributes were reassigned (blind level up)
        wa, wb = warm
        real_a, real_b = g.raw_antes, g.raw_blinds_or_straddles
        g.raw_antes, g.raw_blinds_or_straddles = _conv(wa, chip), _conv(
            wb, chip)
        try:
            g(_conv([500] * n, chip), n)
        except ValueError:
            pass
        g.raw_antes, g.raw_blinds_or_straddles = real_a, real_b
        # ... and for other table sizes with this very layout (a table that
        # fills up, a sit-and-go that shrinks): the representation is read
        # anew for every state
        from collections.abc import Iterator
        one_shot = any(isinstance(x, Iterator)
                       for x in (g.raw_antes, g.raw_blinds_or_straddles))
        # (a layout handed over as a one-shot iterator is used up by the
        # first state, whatever its size: such a game object is not reused)
        for n2 in () if one_shot else (n + 1, max(2, n - 1)):
            try:
                g(_conv([500] * n2, chip), n2)
            except (ValueError, IndexError):
                pass
        random.seed(seed)      # the warm-up shuffled a deck of its own
    return g(stacks, n)


def check(case, stats):
    kind = case['kind']
    out = []
    patch_shuffled(True)
    stats.count('kind:' + kind)
    with warnings.catch_warnings():
        warnings.simplefilter('ignore')
        if kind == 'layout':
            n, bb = case['n'], case['bb']
            gk = dict(game=case.get('game', 'NT'),
                      route=case.get('route', 'create_state'),
                      chip=case.get('chip', 'int'))
            if gk['route'] == 'game_reuse':
                stud_ = gk['game'] in ('F7S', 'F7S8', 'FR')
                gk['warm'] = ([2] * n, [0] * n if stud_
                              else [bb, 2 * bb] + [0] * (n - 2))
            stats.count('chip:' + gk['chip'])
            stats.count('route:' + gk['route'])
            stats.count('game:' + gk['game'])
            try:
                a = _state(case['antes'], case['blinds'], case['stacks'], n,
                           bb, case['seed'],
                           **dict(gk, route='create_state', warm=None))
            except ValueError:
                stats.count('layout_refused_by_engine')
                return []
            reps = {k: materialise(v[1]) for k, v in case['reps'].items()}
            try:
                b = _state(reps['antes'], reps['blinds'], reps['stacks'], n,
                           bb, case['seed'], **gk)
            except Exception as e:  # noqa: BLE001
                if not _is_engine_exception(e):
                    raise     # harness fault: exit 2
                return [V(ID, 'equivalent_layout_refused',
                          ','.join(v[0] for v in case['reps'].values()),
                          f'{case["reps"]} raised {e!r} while the explicit'
                          f' lists {case["antes"]} {case["blinds"]}'
                          f' {case["stacks"]} are accepted')]
            for name, want in (('antes', case['antes']),
                               ('blinds_or_straddles', case['blinds']),
                               ('starting_stacks', case['stacks'])):
                got = list(getattr(b, name))
                want = list(_conv(list(want), gk['chip']))
                # (an entry that was left out is a plain 0 whatever the
                # chip type - exact in every type, not judged)
                if got == want and [type(x) for x in got if x] != [
                        type(x) for x in list(getattr(a, name)) if x]:
                    how = case['reps'][
                        'blinds' if name == 'blinds_or_straddles' else
                        'stacks' if name == 'starting_stacks' else name][0]
                    out.append(V(ID, 'layout_number_type', how,
                                 f'{name}: {case["reps"]} as {gk["chip"]} ->'
                                 f' {got!r}, explicit list gives'
                                 f' {list(getattr(a, name))!r}'))
                    return out
                if got != list(want):
                    how = case['reps'][
                        'blinds' if name == 'blinds_or_straddles' else
                        'stacks' if name == 'starting_stacks' else name][0]
                    out.append(V(ID, 'layout_meaning', how,
                                 f'{name}: {case["reps"]} -> {got},'
                                 f' explicit list {want}'))
                    return out
            d = snapshot_diff(snapshot(a), snapshot(b))
            if d:
                out.append(V(ID, 'layout_state_differs', ','.join(d),
                             f'{case["reps"]} vs explicit lists'))
            hows = {v[0] for v in case['reps'].values()}
            nt = bool(hows - {'list'})
            for h in hows:
                stats.count('rep:' + h)
            if nt:
                stats.count('nontrivial')
                stats.mark_nontrivial(repr(case))
            stats.sample(dict(case=case['reps'], antes=case['antes'],
                              blinds=case['blinds']), nt)
            return out
        if kind == 'cards':
            cards = case['cards']
            objs = tuple(Card.parse(''.join(cards)))
            form = case['form']
            if form == 'single':
                cards = cards[:1]
                objs = objs[:1]

            def alt():
                if form == 'objects':
                    return list(objs)
                if form == 'tuple':
                    return tuple(objs)
                if form == 'gen':
                    return (c for c in objs)
                if form == 'text':
                    return ''.join(cards)
                if form == 'spaces':
                    return ' '.join(cards)
                if form == 'commas':
                    return ', '.join(cards)
                if form == 'ten':
                    return ' '.join(c.replace('T', '10') for c in cards)
                return objs[0]
            if tuple(Card.clean(alt())) != objs:
                return [V(ID, 'cards_meaning', form,
                          f'Card.clean({alt()!r}) != {objs}')]
            where = case['where']
            autos = tuple(a for a in A if a not in (
                A.HOLE_DEALING, A.BOARD_DEALING, A.CARD_BURNING))
            res = []
            for arg in (objs, alt()):
                s = _state([0] * 3, [1, 2, 0], [200] * 3, 3, 2, case['seed'],
                           autos)
                try:
                    if where == 'hole':
                        k = min(len(objs), 2)
                        arg2 = arg
                        if len(objs) > 2:
                            arg2 = objs[:2] if arg is objs else \
                                tuple(Card.clean(arg))[:2]
                        rec = s.deal_hole(arg2)
                    else:
                        while s.can_deal_hole():
                            s.deal_hole()
                        while s.actor_index is not None:
                            s.check_or_call()
                        if where == 'burn':
                            one = objs[:1] if arg is objs else \
                                tuple(Card.clean(arg))[:1]
                            rec = s.burn_card(one if form != 'single'
                                              else arg)
                        else:
                            s.burn_card()
                            three = list(objs)
                            extra_ = [c for c in s.deck_cards
                                      if c not in three]
                            three = (three + extra_)[:3]
                            if arg is objs:
                                rec = s.deal_board(tuple(three))
                            else:
                                rec = s.deal_board(
                                    ' '.join(map(repr, three)))
                except ValueError as e:
                    res.append(('refused', str(e)))
                    continue
                res.append((rec, snapshot(s)))
            if res[0][0] == 'refused' or res[1][0] == 'refused':
                if res[0][0] != res[1][0]:
                    out.append(V(ID, 'cards_meaning', form,
                                 f'{where}: one form refused: {res[0][0]}'
                                 f' / {res[1][0]} for {cards}'))
                return out
            if res[0][0] != res[1][0]:
                out.append(V(ID, 'cards_meaning', form,
                             f'{where}: records {res[0][0]!r} vs'
                             f' {res[1][0]!r}'))
            elif snapshot_diff(res[0][1], res[1][1]):
                out.append(V(ID, 'cards_meaning', form + ':state',
                             f'{snapshot_diff(res[0][1], res[1][1])}'))
            stats.count('form:' + form)
            nt = form != 'tuple'
            if nt:
                stats.count('nontrivial')
                stats.mark_nontrivial(repr(case))
            stats.sample(dict(cards=cards, form=form, where=where), nt)
            return out
        if kind == 'card_text':
            text = case['text']
            res = []
            for name, f in (('Card.parse', lambda: tuple(Card.parse(text))),
                            ('Card.clean', lambda: tuple(Card.clean(text)))):
                try:
                    res.append(f())
                except ValueError:
                    res.append(None)
                except Exception as e:  # noqa: BLE001
                    if not _is_engine_exception(e):
                        raise
                    return [V(ID, 'card_text', 'wrong_exception',
                              f'{name}({text!r}) raised {e!r} (ValueError'
                              ' expected for text that is no card list)')]
            if res[0] != res[1]:
                return [V(ID, 'card_text', 'parse_vs_clean',
                          f'{text!r}: Card.parse {res[0]} vs Card.clean'
                          f' {res[1]}')]
            stats.count('card_text:' + ('accepted' if res[0] is not None
                                        else 'refused'))
            if res[0]:
                back = ''.join(map(repr, res[0]))
                again = tuple(Card.parse(back))
                if again != res[0]:
                    return [V(ID, 'card_text', 'round_trip',
                              f'{text!r} -> {res[0]} -> {back!r} -> {again}')]
                stats.count('nontrivial')
                stats.mark_nontrivial(('card_text', text))
            stats.sample(dict(card_text=text, cards=repr(res[0])),
                         bool(res[0]))
            return []
        if kind == 'hands':
            from .c04 import as_form
            cls = getattr(pokerkit, case['cls'])
            hole, board = case['hole'], case['board']
            hf, bf = case['hole_form'], case['board_form']

            def call(f, *a):
                try:
                    return ('ok', f(*a))
                except ValueError as e:
                    return ('refused', type(e).__name__)

            pairs = [
                ('from_game',
                 call(cls.from_game, ''.join(hole), ''.join(board)),
                 call(cls.from_game, as_form(hole, hf), as_form(board, bf))),
                ('from_game_or_none',
                 call(cls.from_game_or_none, ''.join(hole), ''.join(board)),
                 call(cls.from_game_or_none, as_form(hole, hf),
                      as_form(board, bf))),
                ('constructor',
                 call(cls, ''.join(hole + board)),
                 call(cls, as_form(hole + board, hf))),
                ('lookup.has_entry',
                 call(cls.lookup.has_entry, ''.join(hole + board)),
                 call(cls.lookup.has_entry, as_form(hole + board, bf))),
            ]
            for name, a, b in pairs:
                same = a[0] == b[0] and (
                    a[0] == 'refused' or a[1] == b[1] and (
                        not hasattr(a[1], 'cards')
                        or tuple(a[1].cards) == tuple(b[1].cards)))
                if not same:
                    out.append(V(
                        ID, 'cards_meaning', f'{name}:{hf}/{bf}',
                        f'{case["cls"]}.{name}: text form gives {a!r}, '
                        f'{hf}/{bf} form gives {b!r} for hole {hole} board'
                        f' {board}'))
                    break
            stats.count('hands_entry_points')
            nt = (hf, bf) != ('str', 'str')
            if nt:
                stats.count('nontrivial')
                stats.mark_nontrivial(repr(case))
            stats.sample(dict(hand_class=case['cls'], hole=hole, board=board,
                              forms=[hf, bf]), nt)
            return out
        if kind == 'invalid':
            n, i, x, cls = case['n'], case['i'], case['x'], case['cls']
            antes = [0] * n
            blinds = [1, 2] + [0] * (n - 2)
            stacks = [100] * n
            bring_in = 0
            streets = None
            if cls == 'negative_ante':
                antes[i] = -x
            elif cls == 'non_positive_stack':
                stacks[i] = 0 if x % 2 else -x
            elif cls == 'no_forced_bet':
                blinds = [0] * n
            elif cls == 'too_few_players':
                n = x % 2
                antes, blinds, stacks = antes[:n], blinds[:n], stacks[:n]
            elif cls == 'negative_bring_in':
                bring_in = -x
                blinds = [0] * n
                antes = [1] * n
            elif cls == 'blinds_with_bring_in':
                bring_in = 1
            if case.get('layout') == 'bring_in' and cls in (
                    'negative_ante', 'non_positive_stack',
                    'too_few_players'):
                # the same invalid layout in a stud-type game (antes and a
                # bring-in instead of blinds)
                blinds = [0] * len(blinds)
                antes = [a if a < 0 else 1 for a in antes]
                bring_in = 1
            autos_ = FULL if case.get('autos', 'full') == 'full' else ()
            via = case['via']

            def conv(v):
                if via == 'dict':
                    return {k: y for k, y in enumerate(v) if y}
                if via == 'scalar' and len(set(v)) == 1 and v:
                    return v[0]
                return list(v)
            streets = (
                Street(False, (False, False, True), 0, False,
                       Opening.LOW_CARD if bring_in else Opening.POSITION,
                       2, None),
                Street(True, (True,), 0, False, Opening.HIGH_HAND
                       if bring_in else Opening.POSITION, 2, None),
            )
            try:
                State(autos_, Deck.STANDARD, (pokerkit.StandardHighHand,),
                      streets, BettingStructure.FIXED_LIMIT, True,
                      conv(antes), conv(blinds), bring_in,
                      conv(stacks) if cls != 'non_positive_stack'
                      else list(stacks), n)
            except ValueError:
                pass
            except Exception as e:  # noqa: BLE001
                from ..engine import is_engine_exception
                if not is_engine_exception(e):
                    raise           # a fault of this harness, exit 2
                out.append(V(ID, 'invalid_layout_wrong_exception', cls,
                             f'{cls}: {type(e).__name__}: {e}'))
            else:
                out.append(V(ID, 'invalid_layout_accepted', cls,
                             f'{cls}: antes {antes} blinds {blinds}'
                             f' bring-in {bring_in} stacks {stacks} n {n}'
                             ' accepted'))
            stats.count('invalid:' + cls)
            stats.count('nontrivial')
            stats.mark_nontrivial(repr(case))
            stats.sample(dict(invalid=cls, n=n), True)
            return out
        # helpers
        t = case['t']
        amt, div = case['amount'], case['divisor']
        num, den = case['pct']
        if t == 'int':
            amount, pct = amt, num / den
        elif t == 'frac':
            amount, pct = Fraction(amt, 3), Fraction(num, den)
        elif t == 'float':
            amount, pct = amt * 0.25, num / den
        else:
            amount, pct = Decimal(amt) / 4, Decimal(num) / Decimal(den)
        exact = t in ('int', 'frac')
        tol = 0 if exact else 1e-9 * max(1.0, float(amount))
        q, r = pk_divmod(amount, div)
        if abs(q * div + r - amount) > tol:
            out.append(V(ID, 'divmod_parts', t,
                         f'divmod({amount}, {div}) = ({q}, {r})'))
        if t == 'int' and not 0 <= r < div:
            out.append(V(ID, 'divmod_remainder', t,
                         f'divmod({amount}, {div}) = ({q}, {r})'))
        kw = dict(percentage=pct)
        if case['cap'] is not None:
            kw['cap'] = case['cap']
        try:
            raked, unraked = rake(amount, None, **kw)
        except Exception as e:  # noqa: BLE001
            if not _is_engine_exception(e):
                raise     # harness fault: exit 2
            return out + [V(ID, 'rake_raised', t, f'{e!r} for {amount} {kw}')]
        if abs(raked + unraked - amount) > tol:
            out.append(V(ID, 'rake_parts', t,
                         f'rake({amount}, {kw}) = ({raked}, {unraked}) does'
                         f' not add up'))
        if raked < -tol or raked - amount > tol or unraked < -tol:
            out.append(V(ID, 'rake_range', t,
                         f'rake({amount}, {kw}) = ({raked}, {unraked})'))
        stats.count('chip:' + t)
        nt = amt % div != 0 or num
        if nt:
            stats.count('nontrivial')
            stats.mark_nontrivial(repr(case))
        stats.sample(dict(amount=str(amount), divisor=div,
                          divmod=[str(q), str(r)],
                          rake=[str(raked), str(unraked)]), bool(nt))
        return out
