"""C15 - the operation log is a faithful record; determinism; copies.

(a) the logged records, applied one by one with the logged players, amounts
and cards to a fresh un-automated state of the same game *with a different
shuffle*, reproduce the same log and the same final state; (b) the same
(config, tape) run twice gives identical logs and states; (c) a deep copy taken
at a tape-chosen point stays untouched while the original is played on, and
then responds identically to the same operations.
"""
from __future__ import annotations

import copy
import warnings

from hypothesis import strategies as st

from .. import gen
from ..engine import (
    Interp,
    NOT_ENOUGH_CARDS,
    Tape,
    build_state,
    describe_op,
    describe_ops,
    exc_key,
    is_engine_exception,
    observing,
    op_kind,
    patch_shuffled,
    snapshot,
    snapshot_diff,
    _runaway_observer,
)
from ..runner import V

ID = 'C15'
RULE = (
    'cases = (config, tape, copy point): all variants, automation subsets,'
    ' explicit indices/cards/amounts, unknown face-down cards, commentaries.'
    ' Oracle (a): each logged record re-applied to a fresh state with no'
    ' automation and a different deck order returns an equal record; logs and'
    ' final states equal (deck compared as a multiset); (b) two runs of the'
    ' same case are identical incl. deck order; (c) a deep copy taken after k'
    ' steps is unchanged after the original finishes, and finishing the copy'
    ' with the same tape gives the same log and state. Non-trivial = log'
    ' with >= 1 explicit-index or explicit-card record beyond the defaults,'
    ' or a copy point inside a betting round; distinct = distinct'
    ' (config, log, copy point).'
)
ASSUMPTIONS = [
    'replayed cards are the logged ones; the fresh state only differs in'
    ' deck order',
]


def apply_record(s, op):
    name = type(op).__name__
    kw = {'commentary': op.commentary} if op.commentary is not None else {}
    if name == 'AntePosting':
        return s.post_ante(op.player_index, **kw)
    if name == 'BetCollection':
        return s.collect_bets(**kw)
    if name == 'BlindOrStraddlePosting':
        return s.post_blind_or_straddle(op.player_index, **kw)
    if name == 'CardBurning':
        return s.burn_card(op.card, **kw)
    if name == 'HoleDealing':
        return s.deal_hole(op.cards, op.player_index, **kw)
    if name == 'BoardDealing':
        return s.deal_board(op.cards, **kw)
    if name == 'StandingPatOrDiscarding':
        return s.stand_pat_or_discard(op.cards, **kw)
    if name == 'Folding':
        return s.fold(**kw)
    if name == 'CheckingOrCalling':
        return s.check_or_call(**kw)
    if name == 'BringInPosting':
        return s.post_bring_in(**kw)
    if name == 'CompletionBettingOrRaisingTo':
        return s.complete_bet_or_raise_to(op.amount, **kw)
    if name == 'RunoutCountSelection':
        return s.select_runout_count(op.runout_count, op.player_index, **kw)
    if name == 'HoleCardsShowingOrMucking':
        return s.show_or_muck_hole_cards(
            op.hole_cards if op.hole_cards else False, op.player_index, **kw)
    if name == 'HandKilling':
        return s.kill_hand(op.player_index, **kw)
    if name == 'ChipsPushing':
        return s.push_chips(**kw)
    if name == 'ChipsPulling':
        return s.pull_chips(op.player_index, **kw)
    if name == 'NoOperation':
        return s.no_operate(**kw)
    raise TypeError(name)


def _run(cfg, tape, upto=None, state=None, pos=0):
    t = Tape(tape)
    t.pos = pos
    it = Interp(cfg, t, state=state)
    n = 0
    while it.state.status and (upto is None or n < upto):
        if it.step() is None:
            break
        n += 1
    return it


@st.composite
def c15_case(draw):
    case = draw(gen.cases(tape_size=100, unknown=True))
    cfg = case['config']
    if cfg.get('unknown'):
        cfg['autos'] &= ~(1 << 7)
    cfg['commentary'] = draw(st.booleans())
    case['copy_at'] = draw(st.integers(0, 40))
    return case


# coverage-guided campaign (pkv/fuzz.py): same strategy and oracle driven by
# libFuzzer through Hypothesis' fuzz_one_input; pokerkit instrumented
FUZZ = dict(
    thorough=dict(procs=16, runs=6000, wall=900),
)


def budget(tier):
    if tier == 'quick':
        return dict(examples=2400, wall=100)
    return dict(examples=60000, wall=1500)


def strategy(tier):
    return c15_case()


def check(case, stats):
    cfg = case['config']
    tape = case['tape']
    out = []
    patch_shuffled(True)
    with warnings.catch_warnings():
        warnings.simplefilter('error' if cfg.get('strict') else 'ignore')
        with observing(_runaway_observer):
            try:
                it1 = _run(cfg, tape)
            except Exception as e:  # noqa: BLE001
                if not is_engine_exception(e):
                    raise
                if isinstance(e, ValueError) and NOT_ENOUGH_CARDS in str(e):
                    stats.count('discard')
                    return []
                if isinstance(e, (ValueError, UserWarning)):
                    stats.count('refused_hand')
                    return []
                return [V(ID, 'engine_crash', exc_key(e), repr(e))]
            s1 = it1.state
            snap1 = snapshot(s1)
            # (b) determinism
            it2 = _run(cfg, tape)
            if it2.state.operations != s1.operations:
                out.append(V(ID, 'nondeterministic_log', '',
                             'two runs of the same case give different logs'))
            else:
                d = snapshot_diff(snap1, snapshot(it2.state))
                if d:
                    out.append(V(ID, 'nondeterministic_state', ','.join(d),
                                 f'two runs differ in {d}'))
            # (a) replay on a fresh un-automated state, different shuffle
            try:
                fresh = build_state(cfg, mask=0,
                                    deck_seed=cfg['deck_seed'] + 7919)
            except Exception as e:  # noqa: BLE001
                if not is_engine_exception(e):
                    raise
                out.append(V(ID, 'replay_failed', 'create', repr(e)))
                fresh = None
            if fresh is not None:
                for i, op in enumerate(s1.operations):
                    try:
                        r = apply_record(fresh, op)
                    except Exception as e:  # noqa: BLE001
                        if not is_engine_exception(e):
                            raise
                        out.append(V(
                            ID, 'replay_failed', str(op_kind(op)),
                            f'record #{i} {describe_op(op)} cannot be'
                            f' re-applied: {type(e).__name__}: {e}'))
                        break
                    if r != op:
                        out.append(V(
                            ID, 'replayed_record_differs', str(op_kind(op)),
                            f'record #{i}: logged {op!r}, replay returned'
                            f' {r!r}'))
                        break
                else:
                    if fresh.operations != s1.operations:
                        out.append(V(ID, 'replayed_log_differs', '',
                                     f'{len(fresh.operations)} vs'
                                     f' {len(s1.operations)} records'))
                    else:
                        a = snapshot(s1, deck_order=False)
                        b = snapshot(fresh, deck_order=False)
                        d = snapshot_diff(a, b)
                        if d:
                            out.append(V(
                                ID, 'replayed_state_differs', ','.join(d),
                                f'fields {d}: original'
                                f' {[a[k] for k in d][:2]} replay'
                                f' {[b[k] for k in d][:2]}'))
            # (c) copy independence
            k = case.get('copy_at', 0)
            it3 = _run(cfg, tape, upto=k)
            pos = it3.tape.pos
            cp = copy.deepcopy(it3.state)
            snap_cp = snapshot(cp)
            mid_betting = it3.state.actor_index is not None
            while it3.state.status:
                if it3.step() is None:
                    break
            d = snapshot_diff(snap_cp, snapshot(cp))
            if d:
                out.append(V(ID, 'copy_not_independent', ','.join(d),
                             f'playing the original changed {d} of a deep'
                             f' copy taken after {k} steps'))
            else:
                it4 = _run(cfg, tape, state=cp, pos=pos)
                if it4.state.operations != it3.state.operations:
                    i = next((i for i, (x, y) in enumerate(
                        zip(it4.state.operations, it3.state.operations))
                        if x != y), -1)
                    out.append(V(ID, 'copy_diverges', '',
                                 f'copy taken after {k} steps gives a'
                                 f' different log at #{i}'))
                else:
                    d = snapshot_diff(snapshot(it3.state),
                                      snapshot(it4.state))
                    if d:
                        out.append(V(ID, 'copy_diverges', ','.join(d),
                                     f'final states differ in {d}'))
    explicit = sum(1 for kd, a in it1.steps if a)
    stats.count('explicit_arg_steps', explicit)
    if cfg.get('unknown'):
        stats.count('class:unknown_cards')
    if cfg.get('commentary'):
        stats.count('class:commentary')
    if mid_betting:
        stats.count('class:copy_mid_betting')
    nontrivial = explicit > 0 or mid_betting
    if nontrivial:
        stats.count('nontrivial')
        stats.mark_nontrivial((sorted(cfg.items(), key=str),
                               tuple(map(repr, s1.operations)), k))
    stats.sample(dict(config=cfg, copy_at=k,
                      operations=describe_ops(s1, 50)), nontrivial)
    return out
