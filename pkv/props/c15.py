"""C15 - the operation log is a faithful record; determinism; copies.

(a) the logged records, applied one by one with the logged players, amounts
and cards to a fresh un-automated state of the same game *with a different
shuffle*, reproduce the same log and the same final state; (b) the same
(config, tape) run twice gives identical logs and states; (c) a deep copy taken
at a tape-chosen point stays untouched while the original is played on, and
then responds identically to the same operations.
"""
from __future__ import annotations

import copy
import warnings
from collections import Counter
from fractions import Fraction

from hypothesis import strategies as st

from .. import gen
from ..engine import (
    Hooks,
    Observe,
    Interp,
    NOT_ENOUGH_CARDS,
    Tape,
    build_state,
    describe_op,
    describe_ops,
    exc_key,
    is_engine_exception,
    observing,
    op_kind,
    patch_shuffled,
    snapshot,
    snapshot_diff,
    _runaway_observer,
)
from ..runner import V

ID = 'C15'
RULE = (
    'cases = (config, tape, copy point): all variants, automation subsets,'
    ' explicit indices/cards/amounts, unknown face-down cards, commentaries.'
    ' Oracle (a): each logged record re-applied to a fresh state with no'
    ' automation and a different deck order returns an equal record; logs and'
    ' final states equal (deck compared as a multiset); (b) two runs of the'
    ' same case are identical incl. deck order; (c) a deep copy taken after k'
    ' steps is unchanged after the original finishes, and finishing the copy'
    ' with the same tape gives the same log and state. Non-trivial = log'
    ' with >= 1 explicit-index or explicit-card record beyond the defaults,'
    ' or a copy point inside a betting round; distinct = distinct'
    ' (config, log, copy point).'
)
ASSUMPTIONS = [
    'replayed cards are the logged ones; the fresh state only differs in'
    ' deck order',
]


def apply_record(s, op):
    name = type(op).__name__
    kw = {'commentary': op.commentary} if op.commentary is not None else {}
    if name == 'AntePosting':
        return s.post_ante(op.player_index, **kw)
    if name == 'BetCollection':
        return s.collect_bets(**kw)
    if name == 'BlindOrStraddlePosting':
        return s.post_blind_or_straddle(op.player_index, **kw)
    if name == 'CardBurning':
        return s.burn_card(op.card, **kw)
    if name == 'HoleDealing':
        return s.deal_hole(op.cards, op.player_index, **kw)
    if name == 'BoardDealing':
        return s.deal_board(op.cards, **kw)
    if name == 'StandingPatOrDiscarding':
        return s.stand_pat_or_discard(op.cards, **kw)
    if name == 'Folding':
        return s.fold(**kw)
    if name == 'CheckingOrCalling':
        return s.check_or_call(**kw)
    if name == 'BringInPosting':
        return s.post_bring_in(**kw)
    if name == 'CompletionBettingOrRaisingTo':
        return s.complete_bet_or_raise_to(op.amount, **kw)
    if name == 'RunoutCountSelection':
        return s.select_runout_count(op.runout_count, op.player_index, **kw)
    if name == 'HoleCardsShowingOrMucking':
        return s.show_or_muck_hole_cards(
            op.hole_cards if op.hole_cards else False, op.player_index, **kw)
    if name == 'HandKilling':
        return s.kill_hand(op.player_index, **kw)
    if name == 'ChipsPushing':
        return s.push_chips(**kw)
    if name == 'ChipsPulling':
        return s.pull_chips(op.player_index, **kw)
    if name == 'NoOperation':
        return s.no_operate(**kw)
    raise TypeError(name)


class Exact:
    """"The log is exact": after every operation the logged players, amounts
    and cards are compared with what actually moved between the previous
    operation and this one (stacks, bets, hole cards and their facing, board,
    burns, discards, statuses), independently of how records are built."""

    def __init__(self):
        self.prev = None
        self.viol = []
        self.checked = 0

    @staticmethod
    def light(s):
        return dict(
            stacks=list(s.stacks), bets=list(s.bets),
            hole=[tuple(h) for h in s.hole_cards],
            hst=[tuple(x) for x in s.hole_card_statuses],
            board=Counter(c for row in s.board_cards for c in row),
            burn=tuple(s.burn_cards),
            disc=Counter(c for d in s.discarded_cards for c in d),
            muck=Counter(s.mucked_cards), statuses=list(s.statuses),
        )

    def v(self, key, msg):
        if not self.viol:
            self.viol.append(V(ID, 'record_inexact', key, msg))

    def __call__(self, s, op):
        if op is None:
            return
        n = s.player_count
        if self.prev is None:
            zero = 0 * s.starting_stacks[0]
            self.prev = dict(
                stacks=list(s.starting_stacks), bets=[zero] * n,
                hole=[()] * n, hst=[()] * n, board=Counter(), burn=(),
                disc=Counter(), muck=Counter(), statuses=[True] * n)
        p, now = self.prev, self.light(s)
        self.prev = now
        if self.viol:
            return
        k = op_kind(op)
        self.checked += 1
        tol = 0 if isinstance(s.starting_stacks[0], (int, Fraction)) \
            else 1e-9 * max(1.0, float(sum(s.starting_stacks)))
        ds = [now['stacks'][i] - p['stacks'][i] for i in range(n)]
        db = [now['bets'][i] - p['bets'][i] for i in range(n)]

        def eq(a, b):
            return abs(a - b) <= tol

        def only(i, dstack, dbet):
            for j in range(n):
                ws, wb = (dstack, dbet) if j == i else (0, 0)
                if not eq(ds[j], ws) or not eq(db[j], wb):
                    return (f'{op!r}: player {j} stack {ds[j]:+} bet'
                            f' {db[j]:+}, the record implies stack {ws:+}'
                            f' bet {wb:+}')
            return None

        bad = None
        if k in ('post_ante', 'post_blind_or_straddle', 'post_bring_in',
                 'check_or_call'):
            bad = only(op.player_index, -op.amount, op.amount)
        elif k == 'complete_bet_or_raise_to':
            i = op.player_index
            bad = only(i, -(op.amount - p['bets'][i]),
                       op.amount - p['bets'][i])
            if not bad and not eq(now['bets'][i], op.amount):
                bad = f'{op!r}: bet of player {i} is {now["bets"][i]}'
        elif k == 'collect_bets':
            for i in range(n):
                returned = ds[i]
                taken = -db[i] - returned
                if returned < -tol or not eq(taken, op.bets[i]):
                    bad = (f'{op!r}: player {i} had {p["bets"][i]} in front,'
                           f' {returned} went back to the stack, {taken} to'
                           f' the pot; logged {op.bets[i]}')
                    break
        elif k == 'push_chips':
            for i in range(n):
                if not eq(db[i], op.amounts[i]) or not eq(ds[i], 0):
                    bad = (f'{op!r}: player {i} bet {db[i]:+} stack'
                           f' {ds[i]:+}')
                    break
        elif k == 'pull_chips':
            bad = only(op.player_index, op.amount, -op.amount)
        elif k in ('fold', 'kill_hand', 'select_runout_count',
                   'stand_pat_or_discard', 'show_or_muck_hole_cards',
                   'deal_hole', 'deal_board', 'burn_card'):
            if any(not eq(x, 0) for x in ds + db):
                bad = f'{op!r} moved chips: stacks {ds} bets {db}'
        if bad is None and k == 'deal_hole':
            i = op.player_index
            for j in range(n):
                wh = p['hole'][j] + (tuple(op.cards) if j == i else ())
                wst = p['hst'][j] + (tuple(op.statuses) if j == i else ())
                if now['hole'][j] != wh or now['hst'][j] != wst:
                    bad = (f'{op!r}: player {j} holds {now["hole"][j]}'
                           f' {now["hst"][j]}, expected {wh} {wst}')
                    break
        elif bad is None and k == 'deal_board':
            if now['board'] - p['board'] != Counter(op.cards) or \
                    p['board'] - now['board']:
                bad = (f'{op!r}: board gained'
                       f' {sorted(map(repr, (now["board"] - p["board"]).elements()))}')
        elif bad is None and k == 'burn_card':
            if not now['burn'] or now['burn'][-1] != op.card:
                bad = f'{op!r}: burn pile ends with {now["burn"][-1:]}'
        elif bad is None and k == 'stand_pat_or_discard':
            i = op.player_index
            lost = Counter(p['hole'][i]) - Counter(now['hole'][i])
            if lost != Counter(op.cards) or \
                    now['disc'] - p['disc'] != Counter(op.cards):
                bad = (f'{op!r}: hand lost {sorted(map(repr, lost.elements()))},'
                       f' discards gained'
                       f' {sorted(map(repr, (now["disc"] - p["disc"]).elements()))}')
        elif bad is None and k in ('fold', 'kill_hand'):
            i = op.player_index
            if not p['statuses'][i] or now['statuses'][i] or now['hole'][i]:
                bad = (f'{op!r}: status {p["statuses"][i]} ->'
                       f' {now["statuses"][i]}, holds {now["hole"][i]}')
            elif now['muck'] - p['muck'] != Counter(p['hole'][i]):
                bad = f'{op!r}: muck did not gain exactly {p["hole"][i]}'
        elif bad is None and k == 'show_or_muck_hole_cards':
            i = op.player_index
            if not op.hole_cards:
                if now['statuses'][i] or now['hole'][i]:
                    bad = f'{op!r}: a muck, but player {i} is still in'
            else:
                up = Counter(c for c, t in zip(now['hole'][i], now['hst'][i])
                             if t)
                was_up = Counter(c for c, t in zip(p['hole'][i], p['hst'][i])
                                 if t and c)
                logged = Counter(c for c in op.hole_cards if c)
                if logged - up or (up - was_up) - logged or \
                        len(op.hole_cards) != len(now['hole'][i]):
                    bad = (f'{op!r}: face-up cards of player {i} are now'
                           f' {sorted(map(repr, up.elements()))} (were'
                           f' {sorted(map(repr, was_up.elements()))})')
        if bad is None and k not in ('fold', 'kill_hand',
                                     'show_or_muck_hole_cards'):
            if now['statuses'] != p['statuses']:
                bad = f'{op!r} changed statuses {p["statuses"]} -> {now["statuses"]}'
        if bad is None and k not in ('deal_hole', 'stand_pat_or_discard',
                                     'fold', 'kill_hand',
                                     'show_or_muck_hole_cards'):
            if now['hole'] != p['hole'] or now['hst'] != p['hst']:
                bad = f'{op!r} changed hole cards'
        if bad:
            self.v(str(k), bad)


class Complete(Hooks):
    """"The log is complete": every public operation that returns a record
    has appended exactly that record (first, before any automated follow-up).
    """

    def __init__(self):
        self.viol = []
        self.n0 = 0

    def before(self, it, kind, args):
        self.n0 = len(it.state.operations)

    def after(self, it, kind, args, result):
        ops = it.state.operations
        if self.viol:
            return
        want = getattr(it, 'last_commentary', None)
        if want is not None and len(ops) > self.n0 and \
                ops[self.n0].commentary != want:
            self.viol.append(V(
                ID, 'commentary_not_logged', kind,
                f'{kind}{args!r} was given commentary {want!r}, the logged'
                f' record carries {ops[self.n0].commentary!r}'))
            return
        if len(ops) <= self.n0 or ops[self.n0] != result:
            self.viol.append(V(
                ID, 'operation_not_logged', kind,
                f'{kind}{args!r} returned {result!r} but the log entry at'
                f' #{self.n0} is {ops[self.n0] if len(ops) > self.n0 else None!r}'))


def _run(cfg, tape, upto=None, state=None, pos=0, hooks=None):
    t = Tape(tape)
    t.pos = pos
    it = Interp(cfg, t, state=state, hooks=hooks)
    n = 0
    while it.state.status and (upto is None or n < upto):
        if hooks is not None:
            hooks.quiescent(it)
        if it.step() is None:
            break
        n += 1
    if hooks is not None:
        hooks.quiescent(it)
    return it


_BOARD = ('FT', 'NT', 'NR', 'NS', 'PO', 'FO8')


@st.composite
def c15_case(draw):
    case = draw(st.one_of(
        gen.cases(tape_size=100, unknown=True),
        gen.cases(tape_size=100, unknown=True),
        # cash-game all-ins with run-outs and several boards dealt by hand:
        # many quiescent states between the deals of one settlement
        gen.cases(tape_size=100, games=_BOARD, profiles=(2, 5),
                  short_bias=True, modes=('C',), boards=(1, 2, 2, 3),
                  mask_strategy=st.sampled_from(
                      [2047 & ~(1 << 5) & ~(1 << 3), 2047 & ~(1 << 5), 0,
                       2047 & ~(1 << 5) & ~(1 << 6), 2047 & ~(1 << 4)])),
    ))
    cfg = case['config']
    if cfg.get('unknown'):
        cfg['autos'] &= ~(1 << 7)
    cfg['commentary'] = draw(st.booleans())
    case['copy_at'] = draw(st.integers(0, 40))
    case['late_show'] = draw(st.sampled_from([0, 0, 1, 2, 3]))
    return case


# coverage-guided campaign (pkv/fuzz.py): same strategy and oracle driven by
# libFuzzer through Hypothesis' fuzz_one_input; pokerkit instrumented
FUZZ = dict(
    thorough=dict(procs=16, runs=6000, wall=900),
)


def public_outcome(s):
    return dict(
        stacks=list(s.stacks), payoffs=list(s.payoffs), bets=list(s.bets),
        statuses=list(s.statuses), status=s.status,
        hole=[list(h) for h in s.hole_cards],
        facing=[list(h) for h in s.hole_card_statuses],
        board=[list(b) for b in s.board_cards],
        burn=list(s.burn_cards), muck=list(s.mucked_cards),
        deck=list(s.deck_cards),
    )


def _late_show(it, case, complete):
    """The documented non-standard show: once the hand is over a player who
    is still in may table his face-down cards (explicit index).  It is an
    operation like any other, so it must be logged and replayable."""
    s = it.state
    k = case.get('late_show')
    if not k or s.status:
        return
    live = [i for i in s.player_indices if s.statuses[i]
            and s.hole_cards[i] and not all(s.hole_card_statuses[i])
            and all(bool(c) for c in s.hole_cards[i])]
    if not live:
        return
    i = live[k % len(live)]
    if not s.can_show_or_muck_hole_cards(True, i):
        return
    n0 = len(s.operations)
    r = s.show_or_muck_hole_cards(True, i)
    it.steps.append(('show_or_muck_hole_cards', (True, i)))
    if complete is not None and not complete.viol:
        if len(s.operations) <= n0 or s.operations[n0] != r:
            complete.viol.append(V(
                ID, 'operation_not_logged', 'late_show',
                f'show_or_muck_hole_cards(True, {i}) after the hand returned'
                f' {r!r} but {len(s.operations) - n0} record(s) were'
                ' appended'))


def hash_seed_strategy():
    """Hands in which players table part of their hands at an all-in
    showdown (Omaha / stud, cash game, manual showdown): where the order of
    the cards kept face down could depend on set iteration."""
    return gen.cases(
        tape_size=90, games=('PO', 'FO8', 'F7S', 'F7S8', 'FR', 'NT'),
        custom=False, modes=('C',), profiles=(2, 5, 2), short_bias=True,
        strict=False, rake=False, divmods=False, chips=('int',),
        mask_strategy=st.sampled_from([2047 & ~(1 << 7),
                                       2047 & ~(1 << 7) & ~(1 << 6), 0]))


def _digests(cases, hash_seed):
    import json
    import os
    import subprocess
    import sys
    from .. import VERIF, REPO
    env = dict(os.environ, PYTHONHASHSEED=str(hash_seed),
               PYTHONDONTWRITEBYTECODE='1', PKV_REPO=REPO)
    env['PYTHONPATH'] = VERIF
    r = subprocess.run([sys.executable, '-m', 'pkv.hashrun'], cwd=VERIF,
                       input=json.dumps(cases), capture_output=True,
                       text=True, env=env, timeout=600)
    if r.returncode != 0:
        from ..engine import HarnessError
        raise HarnessError('hashrun worker failed: ' + r.stderr[-800:])
    return json.loads(r.stdout.strip().splitlines()[-1])


def extra(tier, seed, stats):
    """"Given the same deck order the engine is deterministic" - also across
    interpreter processes: the same cases are replayed under three different
    PYTHONHASHSEED values and their logs / final hands compared."""
    from ..fuzz import build_pool

    class _M:
        @staticmethod
        def strategy(t):
            return hash_seed_strategy()

    n = 150 if tier == 'quick' else 1500
    pool = build_pool(_M, tier, 7919 * (seed + 1), n)
    for c in pool:
        c['late_show'] = 0
    seeds = (0, 1, 2) if tier == 'quick' else (0, 1, 2, 3, 4)
    res = [_digests(pool, h) for h in seeds]
    viols = []
    partial = 0
    for i, case in enumerate(pool):
        ds = {r[i] for r in res}
        if len(ds) > 1 and not viols:
            viols.append((V(ID, 'depends_on_hash_seed', '',
                            f'the same case gives different logs / final'
                            f' hands under PYTHONHASHSEED {seeds}:'
                            f' digests {[r[i] for r in res]}'),
                          dict(case, kind='hashseed', hash_seeds=list(seeds))))
    info = dict(evaluations=len(pool) * len(seeds), distinct_nontrivial=0,
                hash_seeds=list(seeds), hash_seed_cases=len(pool))
    return viols, info


def budget(tier):
    if tier == 'quick':
        return dict(examples=2000, wall=110)
    return dict(examples=60000, wall=1500)


def strategy(tier):
    return c15_case()


def check(case, stats):
    if case.get('kind') == 'hashseed':
        seeds = case.get('hash_seeds') or [0, 1, 2]
        one = {k: v for k, v in case.items() if k not in ('kind',)}
        ds = [_digests([one], h)[0] for h in seeds]
        if len(set(ds)) > 1:
            return [V(ID, 'depends_on_hash_seed', '',
                      f'digests {ds} under PYTHONHASHSEED {seeds}')]
        return []
    cfg = case['config']
    tape = case['tape']
    out = []
    patch_shuffled(True)
    with warnings.catch_warnings():
        warnings.simplefilter('error' if cfg.get('strict') else 'ignore')
        with observing(_runaway_observer):
            exact = Exact()
            complete = Complete()
            try:
                with observing(exact):
                    it1 = _run(cfg, tape, hooks=complete)
                    _late_show(it1, case, complete)
            except Exception as e:  # noqa: BLE001
                if not is_engine_exception(e):
                    raise
                if isinstance(e, ValueError) and NOT_ENOUGH_CARDS in str(e):
                    stats.count('discard')
                    return []
                if isinstance(e, (ValueError, UserWarning)):
                    stats.count('refused_hand')
                    return []
                return [V(ID, 'engine_crash', exc_key(e), repr(e))]
            s1 = it1.state
            snap1 = snapshot(s1)
            out.extend(exact.viol)
            out.extend(complete.viol)
            stats.count('records_checked_exact', exact.checked)
            # (b) determinism
            it2 = _run(cfg, tape)
            _late_show(it2, case, None)
            if it2.state.operations != s1.operations:
                out.append(V(ID, 'nondeterministic_log', '',
                             'two runs of the same case give different logs'))
            else:
                d = snapshot_diff(snap1, snapshot(it2.state))
                if d:
                    out.append(V(ID, 'nondeterministic_state', ','.join(d),
                                 f'two runs differ in {d}'))
            # (d) looking does not change anything: the same case with every
            # public property and accessor read at every quiescent state
            ob = Observe(case.get('copy_at', 0))
            try:
                it5 = _run(cfg, tape, hooks=ob)
                _late_show(it5, case, None)
            except Exception as e:  # noqa: BLE001
                if not is_engine_exception(e):
                    raise
                out.append(V(ID, 'observation_changes_hand', exc_key(e),
                             f'with read-only accessors called between'
                             f' operations the hand fails: {e!r}'))
                it5 = None
            if it5 is not None:
                if ob.calls == 0 and len(it5.steps) >= 3:
                    from ..engine import HarnessError
                    raise HarnessError('observation pass read nothing')
                stats.count('read_only_calls', ob.calls)
                if it5.state.operations != s1.operations:
                    i = next((i for i, (x, y) in enumerate(
                        zip(it5.state.operations, s1.operations))
                        if x != y), min(len(it5.state.operations),
                                        len(s1.operations)))
                    out.append(V(
                        ID, 'observation_changes_hand', 'log',
                        f'reading the public properties/accessors between'
                        f' operations changes the log at #{i}:'
                        f' {it5.state.operations[i:i + 1]} vs'
                        f' {s1.operations[i:i + 1]}'))
                else:
                    a, b = public_outcome(s1), public_outcome(it5.state)
                    d = [k for k in a if a[k] != b[k]]
                    if d:
                        out.append(V(
                            ID, 'observation_changes_hand', ','.join(d),
                            f'reading the public properties/accessors'
                            f' changes {d}: {[a[k] for k in d][:2]} vs'
                            f' {[b[k] for k in d][:2]}'))
            # (a) replay on a fresh un-automated state, different shuffle
            try:
                fresh = build_state(cfg, mask=0,
                                    deck_seed=cfg['deck_seed'] + 7919)
            except Exception as e:  # noqa: BLE001
                if not is_engine_exception(e):
                    raise
                out.append(V(ID, 'replay_failed', 'create', repr(e)))
                fresh = None
            if fresh is not None:
                for i, op in enumerate(s1.operations):
                    try:
                        r = apply_record(fresh, op)
                    except Exception as e:  # noqa: BLE001
                        if not is_engine_exception(e):
                            raise
                        out.append(V(
                            ID, 'replay_failed', str(op_kind(op)),
                            f'record #{i} {describe_op(op)} cannot be'
                            f' re-applied: {type(e).__name__}: {e}'))
                        break
                    if r != op:
                        out.append(V(
                            ID, 'replayed_record_differs', str(op_kind(op)),
                            f'record #{i}: logged {op!r}, replay returned'
                            f' {r!r}'))
                        break
                else:
                    if fresh.operations != s1.operations:
                        out.append(V(ID, 'replayed_log_differs', '',
                                     f'{len(fresh.operations)} vs'
                                     f' {len(s1.operations)} records'))
                    else:
                        a = snapshot(s1, deck_order=False)
                        b = snapshot(fresh, deck_order=False)
                        d = snapshot_diff(a, b)
                        if d:
                            out.append(V(
                                ID, 'replayed_state_differs', ','.join(d),
                                f'fields {d}: original'
                                f' {[a[k] for k in d][:2]} replay'
                                f' {[b[k] for k in d][:2]}'))
            # (c) copy independence
            k = case.get('copy_at', 0)
            it3 = _run(cfg, tape, upto=k)
            pos = it3.tape.pos
            cp = copy.deepcopy(it3.state)
            snap_cp = snapshot(cp)
            mid_betting = it3.state.actor_index is not None
            while it3.state.status:
                if it3.step() is None:
                    break
            d = snapshot_diff(snap_cp, snapshot(cp))
            if d:
                out.append(V(ID, 'copy_not_independent', ','.join(d),
                             f'playing the original changed {d} of a deep'
                             f' copy taken after {k} steps'))
            else:
                it4 = _run(cfg, tape, state=cp, pos=pos)
                if it4.state.operations != it3.state.operations:
                    i = next((i for i, (x, y) in enumerate(
                        zip(it4.state.operations, it3.state.operations))
                        if x != y), -1)
                    out.append(V(ID, 'copy_diverges', '',
                                 f'copy taken after {k} steps gives a'
                                 f' different log at #{i}'))
                else:
                    d = snapshot_diff(snapshot(it3.state),
                                      snapshot(it4.state))
                    if d:
                        out.append(V(ID, 'copy_diverges', ','.join(d),
                                     f'final states differ in {d}'))
    explicit = sum(1 for kd, a in it1.steps if a)
    stats.count('explicit_arg_steps', explicit)
    if cfg.get('unknown'):
        stats.count('class:unknown_cards')
    if cfg.get('commentary'):
        stats.count('class:commentary')
    if mid_betting:
        stats.count('class:copy_mid_betting')
    nontrivial = explicit > 0 or mid_betting
    if nontrivial:
        stats.count('nontrivial')
        stats.mark_nontrivial((sorted(cfg.items(), key=str),
                               tuple(map(repr, s1.operations)), k))
    stats.sample(dict(config=cfg, copy_at=k,
                      operations=describe_ops(s1, 50)), nontrivial)
    return out
