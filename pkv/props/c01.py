"""C01 - chip conservation, non-negativity, zero-sum payoffs.

Oracle: an accounting identity over the public attributes, evaluated after
*every* operation (observer on the engine's single update choke point, so the
operations fired by automation cascades and by the constructor are seen too).
It never looks at how the engine computes pots; it only adds up what the
public attributes report.
"""
from __future__ import annotations

from math import inf, isinf

from .. import gen
from ..engine import describe_ops, exc_key, observed_phase, run_case
from ..runner import V

ID = 'C01'
RULE = (
    'cases = (config, tape) from the shared history engine: 12 variants +'
    ' custom street lists, 2-9 players, ante/blind/straddle/bring-in layouts'
    ' incl. short stacks, 3 structures, both modes, automation subsets,'
    ' 1-3 boards, run-outs, rake, custom divmod, int/Fraction/float/Decimal'
    ' chips. Oracle after every operation: stacks, bets, pots >= 0 and'
    ' sum(stacks)+sum(bets)+sum(pots) == sum(starting stacks); at the end'
    ' bets == 0, nothing unraked left, payoff == stack - starting stack,'
    ' sum(payoffs) == -raked. Non-trivial = the hand has an uncalled-bet'
    ' return, >=2 pots, a short ante/blind, untrimmed unequal antes, an'
    ' odd-chip split, rake > 0 or >1 board; distinct = distinct'
    ' (config, operation log) hashes.'
)
ASSUMPTIONS = [
    'float/Decimal chips compared within 1e-9 * total chips',
    'infinite stacks excluded (only used by the README when stacks unknown)',
    'the all-players-muck outcome (pinned by test_unknown_showdown) is'
    ' excluded by construction and counted',
]


# coverage-guided campaign (pkv/fuzz.py): same strategy and oracle driven by
# libFuzzer through Hypothesis' fuzz_one_input; pokerkit instrumented
FUZZ = dict(
    thorough=dict(procs=16, runs=6000, wall=900),
)


def budget(tier):
    if tier == 'quick':
        return dict(examples=8000, wall=100)
    return dict(examples=160000, wall=1500)


def strategy(tier):
    return gen.cases(tape_size=100 if tier == 'quick' else 160)


def _tol(cfg, total):
    if cfg.get('chip', 'int') in ('int', 'frac'):
        return 0
    return 1e-9 * max(1.0, float(total))


class Obs:
    def __init__(self, cfg):
        self.cfg = cfg
        self.viol = []
        self.total = None
        self.tol = 0
        self.max_pots = 0
        self.nops = 0
        self.flags = set()

    def __call__(self, state, op):
        if self.total is None:
            self.total = sum(state.starting_stacks)
            self.tol = _tol(self.cfg, self.total)
        tol = self.tol
        self.nops += 1
        pots = list(state.pots)
        if len(pots) > self.max_pots:
            self.max_pots = len(pots)
        neg = None
        for i, x in enumerate(state.stacks):
            if x < -tol:
                neg = f'stack[{i}]={x}'
        for i, x in enumerate(state.bets):
            if x < -tol:
                neg = f'bet[{i}]={x}'
        psum = 0
        for j, p in enumerate(pots):
            if p.raked_amount < -tol or p.unraked_amount < -tol:
                neg = f'pot[{j}]={p}'
            psum += p.raked_amount + p.unraked_amount
        if neg and not self.viol:
            self.viol.append(
                V(ID, 'negative_amount', type(op).__name__,
                  f'{neg} after {op!r} (op #{len(state.operations)})'))
        tot = sum(state.stacks) + sum(state.bets) + psum
        if abs(tot - self.total) > tol and not self.viol:
            self.viol.append(
                V(ID, 'chips_not_conserved', type(op).__name__,
                  f'stacks+bets+pots={tot} != starting {self.total} after'
                  f' {op!r} (op #{len(state.operations)}); stacks='
                  f'{state.stacks} bets={state.bets} pots={pots}'))
        # the state's own aggregate views agree with the parts: every public
        # way of asking "how much is on the table" gives the same chips
        if not self.viol:
            try:
                tpa = state.total_pot_amount
                pas = list(state.pot_amounts)
            except Exception as e:  # noqa: BLE001
                from ..engine import is_engine_exception
                if not is_engine_exception(e):
                    raise
                tpa = pas = None
                self.viol.append(V(ID, 'pot_view_raised', type(e).__name__,
                                   f'{e!r} after {op!r}'))
            if tpa is not None:
                want = sum(state.bets) + psum
                if abs(tpa - want) > tol:
                    self.viol.append(V(
                        ID, 'pot_views_disagree', 'total_pot_amount',
                        f'total_pot_amount={tpa} but bets {state.bets} +'
                        f' pots {pots} = {want} after {op!r}'
                        f' (op #{len(state.operations)})'))
                elif len(pas) != len(pots) or any(
                        abs(a - (p.raked_amount + p.unraked_amount)) > tol
                        for a, p in zip(pas, pots)):
                    self.viol.append(V(
                        ID, 'pot_views_disagree', 'pot_amounts',
                        f'pot_amounts={pas} but pots={pots} after {op!r}'))
        name = type(op).__name__
        if name == 'BetCollection':
            pass
        elif name == 'ChipsPushing':
            if sum(1 for a in op.amounts if a) >= 2:
                self.flags.add('split')
                if len(set(a for a in op.amounts if a)) > 1:
                    self.flags.add('odd_chip')


def check(case, stats):
    cfg = case['config']
    if any(isinf(float(x)) for x in cfg['stacks']):
        return []
    obs = Obs(cfg)
    ph = observed_phase(cfg)
    if ph is not None:
        stats.count('class:observed_run')
    res = run_case(case, observers=(obs,), observed=ph)
    stats.count('outcome:' + str(res.outcome))
    if res.outcome == 'discard':
        return []
    out = list(obs.viol)
    st = res.state
    if res.outcome == 'crash':
        out.append(V(ID, 'engine_crash', exc_key(res.exc),
                     f'{type(res.exc).__name__}: {res.exc}'))
        return out
    if res.outcome in ('refused', 'stuck', 'long'):
        # belongs to C07/C08; the accounting above still counted
        stats.count('incomplete_hand')
        return out
    tol = obs.tol
    total = obs.total
    pots = list(st.pots)
    raked = sum(p.raked_amount for p in pots)
    live = sum(st.statuses)
    if live == 0 and any(p.unraked_amount > tol for p in pots):
        killed = [o for o in st.operations
                  if type(o).__name__ == 'HandKilling']
        kind = 'pot_unawarded_last_player_killed' if killed else \
            'pot_unawarded_all_players_mucked'
        out.append(V(ID, kind, '',
                     f'nobody is left in the hand and the pot {pots} is'
                     f' never awarded; stacks {st.stacks}'))
    if any(abs(b) > tol for b in st.bets):
        out.append(V(ID, 'bets_left_on_table', '',
                     f'final bets {st.bets}'))
    if any(abs(p.unraked_amount) > tol for p in pots) and live:
        out.append(V(ID, 'pot_left_on_table', '',
                     f'final pots {pots} stacks {st.stacks}'))
    for i in range(st.player_count):
        if abs(st.payoffs[i] - (st.stacks[i] - st.starting_stacks[i])) > tol:
            out.append(V(ID, 'payoff_mismatch', '',
                         f'payoffs {st.payoffs} stacks {st.stacks} starting'
                         f' {st.starting_stacks}'))
            break
    if abs(sum(st.payoffs) + raked) > tol and live:
        out.append(V(ID, 'payoffs_not_zero_sum', '',
                     f'sum(payoffs)={sum(st.payoffs)} raked={raked}'))
    if not cfg.get('rake') and abs(raked) > tol:
        out.append(V(ID, 'rake_without_rake_function', '', f'raked={raked}'))
    # classification
    flags = set(obs.flags)
    if obs.max_pots >= 2:
        flags.add('side_pot')
    if raked:
        flags.add('rake')
    if cfg.get('boards', 1) > 1 or (st.runout_count or 1) > 1:
        flags.add('multi_board')
    ops = st.operations
    for op in ops:
        nm = type(op).__name__
        if nm == 'AntePosting':
            i = op.player_index
            if op.amount < max(st.antes):
                flags.add('unequal_or_short_ante')
        elif nm == 'BlindOrStraddlePosting':
            if op.amount < abs(st.blinds_or_straddles[
                    (not op.player_index) if st.player_count == 2
                    else op.player_index]):
                flags.add('short_blind')
        elif nm == 'BetCollection':
            pass
    # uncalled bet return: some player's stack rose at a collection
    if any(type(o).__name__ == 'CompletionBettingOrRaisingTo' for o in ops):
        flags.add('raise')
    for f in flags:
        stats.count('class:' + f)
    stats.count('chip:' + cfg.get('chip', 'int'))
    stats.count('game:' + cfg['game'])
    nontrivial = bool(flags & {'side_pot', 'rake', 'multi_board', 'odd_chip',
                               'unequal_or_short_ante', 'short_blind',
                               'split'})
    if nontrivial:
        stats.mark_nontrivial((sorted(cfg.items(), key=str),
                               tuple(map(repr, ops))))
        stats.count('nontrivial')
    stats.count('ops_observed', obs.nops)
    stats.sample(dict(config=cfg, operations=describe_ops(st, 60),
                      final_stacks=list(st.stacks)), nontrivial)
    return out


# ---- known findings: one dedicated demonstration each ----------------------

def demonstrate_known(k):
    """True when the listed finding still reproduces on the current tree."""
    import warnings
    from decimal import Decimal
    from pokerkit import Automation, Mode, NoLimitTexasHoldem
    A = Automation
    autos = (A.ANTE_POSTING, A.BET_COLLECTION, A.BLIND_OR_STRADDLE_POSTING,
             A.CARD_BURNING, A.HOLE_DEALING, A.BOARD_DEALING,
             A.HAND_KILLING, A.CHIPS_PUSHING, A.CHIPS_PULLING)
    with warnings.catch_warnings():
        warnings.simplefilter('ignore')
        if k['kind'] == 'pot_unawarded_all_players_mucked':
            try:
                s = NoLimitTexasHoldem.create_state(
                    autos, False, 0, (1, 2), 2, 200, 3, mode=Mode.CASH_GAME)
                s.check_or_call()
                s.check_or_call()
                s.check_or_call()
                while s.actor_index is not None:
                    s.check_or_call()
                while s.can_select_runout_count():
                    s.select_runout_count()
                while s.can_show_or_muck_hole_cards():
                    s.show_or_muck_hole_cards(False)
                left = sum(p.amount for p in s.pots)
                return (not s.status) and left > 0 and \
                    sum(s.stacks) < sum(s.starting_stacks)
            except Exception:  # noqa: BLE001
                return False
        if k['kind'] == 'real_chip_rounding_assert':
            try:
                s = NoLimitTexasHoldem.create_state(
                    tuple(A), False, 0, (Decimal('0.25'), Decimal('0.5')),
                    Decimal('0.5'), Decimal('0.5'), 4,
                    starting_board_count=3)
                while s.status and s.can_check_or_call():
                    s.check_or_call()
            except AssertionError:
                return True
            except Exception:  # noqa: BLE001
                return False
            return False
    return False
