"""C11 - each predefined variant plays the game its name and docs say.

(static) a hand-written table of what the twelve variant names and the
documentation promise - deck, hand types, hole cards per street and their
facing, board cards per street, draws, burns, opening rule, betting
structure, small/big bet streets, raise cap - is compared with states created
over the parameter space, and the PHH variant codes with the classes they
name.  (dynamic) the betting model of C03, instantiated *from the table*, is
run along generated hands of every variant: fixed-limit accepts only the
fixed amount and at most four bets/raises a round, no-limit up to the stack,
pot-limit up to the pot; split games push a low half when a low qualifies.
"""
from __future__ import annotations

from hypothesis import strategies as st

from .. import gen, refeval
from ..engine import GAMES, chip, describe_ops, exc_key, op_kind, run_case
from ..refeval import rs
from ..runner import V
from .c03 import Model

import pokerkit
from pokerkit import Deck, HandHistory

ID = 'C11'
RULE = (
    'cases = (config, tape) over the 12 predefined classes x their parameter'
    ' space (antes, blinds/bring-in, bets, stacks, modes, boards). Static'
    ' oracle: hand-written variant table (deck as a card set, hand type'
    ' classes, per street: burn, hole cards and facing, board cards, draw,'
    ' opening, minimum bet small/big, cap; structure) vs the created state;'
    ' PHH code -> class. Dynamic oracle: C03\'s round model parameterised from'
    ' the table (not from state.streets) at every betting decision, incl.'
    ' probe amounts; hi-lo games push a low half whenever a live hand'
    ' qualifies. Non-trivial = hand with >= 2 raises in one round or a'
    ' hi-lo showdown; distinct = (config, log).'
)
ASSUMPTIONS = ['the table in this file is the trusted statement of the'
               ' documentation (docs/simulation.rst, class docstrings)']

R52 = '23456789TJQKA'


def cards(ranks):
    return {(r, s) for r in ranks for s in 'cdhs'}


HOLDEM = lambda n: [  # noqa: E731
    dict(burn=False, hole=(False,) * n, board=0, draw=False,
         opening='POSITION', bet='small'),
    dict(burn=True, hole=(), board=3, draw=False, opening='POSITION',
         bet='small'),
    dict(burn=True, hole=(), board=1, draw=False, opening='POSITION',
         bet='big'),
    dict(burn=True, hole=(), board=1, draw=False, opening='POSITION',
         bet='big'),
]


def STUD(low):
    first = 'HIGH_CARD' if low else 'LOW_CARD'
    later = 'LOW_HAND' if low else 'HIGH_HAND'
    return [
        dict(burn=False, hole=(False, False, True), board=0, draw=False,
             opening=first, bet='small'),
        dict(burn=True, hole=(True,), board=0, draw=False, opening=later,
             bet='small'),
        dict(burn=True, hole=(True,), board=0, draw=False, opening=later,
             bet='big'),
        dict(burn=True, hole=(True,), board=0, draw=False, opening=later,
             bet='big'),
        dict(burn=True, hole=(False,), board=0, draw=False, opening=later,
             bet='big'),
    ]


def DRAW(n, draws):
    out = [dict(burn=False, hole=(False,) * n, board=0, draw=False,
                opening='POSITION', bet='small')]
    for j in range(draws):
        out.append(dict(burn=True, hole=(), board=0, draw=True,
                        opening='POSITION',
                        bet='small' if (draws == 1 or j == 0) else 'big'))
    return out


TABLE = {
    'FT': dict(deck=cards(R52), hands=['StandardHighHand'],
               structure='FIXED_LIMIT', cap=4, streets=HOLDEM(2)),
    'NT': dict(deck=cards(R52), hands=['StandardHighHand'],
               structure='NO_LIMIT', cap=None, streets=HOLDEM(2)),
    'NR': dict(deck=cards('TJQKA'), hands=['StandardHighHand'],
               structure='NO_LIMIT', cap=None, streets=HOLDEM(2)),
    'NS': dict(deck=cards('6789TJQKA'), hands=['ShortDeckHoldemHand'],
               structure='NO_LIMIT', cap=None, streets=HOLDEM(2)),
    'PO': dict(deck=cards(R52), hands=['OmahaHoldemHand'],
               structure='POT_LIMIT', cap=None, streets=HOLDEM(4)),
    'FO8': dict(deck=cards(R52),
                hands=['OmahaHoldemHand', 'OmahaEightOrBetterLowHand'],
                structure='FIXED_LIMIT', cap=4, streets=HOLDEM(4)),
    'F7S': dict(deck=cards(R52), hands=['StandardHighHand'],
                structure='FIXED_LIMIT', cap=4, streets=STUD(False)),
    'F7S8': dict(deck=cards(R52),
                 hands=['StandardHighHand', 'EightOrBetterLowHand'],
                 structure='FIXED_LIMIT', cap=4, streets=STUD(False)),
    'FR': dict(deck=cards(R52), hands=['RegularLowHand'],
               structure='FIXED_LIMIT', cap=4, streets=STUD(True)),
    'N2L1D': dict(deck=cards(R52), hands=['StandardLowHand'],
                  structure='NO_LIMIT', cap=None, streets=DRAW(5, 1)),
    'F2L3D': dict(deck=cards(R52), hands=['StandardLowHand'],
                  structure='FIXED_LIMIT', cap=4, streets=DRAW(5, 3)),
    'FB': dict(deck=cards(R52), hands=['BadugiHand'],
               structure='FIXED_LIMIT', cap=4, streets=DRAW(4, 3)),
}
# in the triple draw games the big bet applies to the last two rounds
for _g in ('F2L3D', 'FB'):
    for _j, _b in enumerate(('small', 'small', 'big', 'big')):
        TABLE[_g]['streets'][_j]['bet'] = _b

PHH_CODES = {
    'FT': 'FixedLimitTexasHoldem', 'NT': 'NoLimitTexasHoldem',
    'NS': 'NoLimitShortDeckHoldem', 'PO': 'PotLimitOmahaHoldem',
    'FO/8': 'FixedLimitOmahaHoldemHighLowSplitEightOrBetter',
    'F7S': 'FixedLimitSevenCardStud',
    'F7S/8': 'FixedLimitSevenCardStudHighLowSplitEightOrBetter',
    'FR': 'FixedLimitRazz', 'N2L1D': 'NoLimitDeuceToSevenLowballSingleDraw',
    'F2L3D': 'FixedLimitDeuceToSevenLowballTripleDraw', 'FB': 'FixedLimitBadugi',
}


def static_check(cfg, s):
    t = TABLE[cfg['game']]
    out = []

    def bad(what, got, want):
        out.append(V(ID, 'variant_table', f'{cfg["game"]}:{what}',
                     f'{GAMES[cfg["game"]][0]}: {what} is {got}, the name/'
                     f'documentation say {want}'))

    # what the caller asked for reaches the state, whichever variant and
    # whichever creation route (create_state / game object)
    if s.starting_board_count != cfg.get('boards', 1):
        bad('starting_board_count', s.starting_board_count,
            f'{cfg.get("boards", 1)} (requested)')
    if str(getattr(s.mode, 'value', s.mode)) != (
            'Tournament' if cfg['mode'] == 'T' else 'Cash-game'):
        bad('mode', s.mode, cfg['mode'])
    if bool(s.ante_trimming_status) != bool(cfg['trim']):
        bad('ante_trimming_status', s.ante_trimming_status, cfg['trim'])
    deck = {rs(c) for c in s.deck}
    if deck != t['deck'] or len(tuple(s.deck)) != len(t['deck']):
        bad('deck', sorted(deck)[:8], f'{len(t["deck"])} cards')
    hands = [h.__name__ for h in s.hand_types]
    if hands != t['hands']:
        bad('hand types', hands, t['hands'])
    if s.betting_structure.name != t['structure']:
        bad('betting structure', s.betting_structure.name, t['structure'])
    if len(s.streets) != len(t['streets']):
        bad('street count', len(s.streets), len(t['streets']))
        return out
    small, big = chip(cfg, cfg['sb']), chip(cfg, cfg['bb'])
    for j, (st_, w) in enumerate(zip(s.streets, t['streets'])):
        got = dict(burn=st_.card_burning_status,
                   hole=tuple(st_.hole_dealing_statuses),
                   board=st_.board_dealing_count, draw=st_.draw_status,
                   opening=st_.opening.name)
        want = {k: w[k] for k in got}
        if got != want:
            bad(f'street {j}', got, want)
        wbet = small if w['bet'] == 'small' else big
        if st_.min_completion_betting_or_raising_amount != wbet:
            bad(f'street {j} minimum bet',
                st_.min_completion_betting_or_raising_amount,
                f'{w["bet"]} bet {wbet}')
        if st_.max_completion_betting_or_raising_count != t['cap']:
            bad(f'street {j} raise cap',
                st_.max_completion_betting_or_raising_count, t['cap'])
    return out


def extra(tier, seed, stats):
    viols = []
    n = 0
    for code, cname in PHH_CODES.items():
        n += 1
        got = HandHistory.game_types.get(code)
        if got is None or got.__name__ != cname:
            viols.append(V(ID, 'phh_code', code,
                           f'PHH variant {code!r} maps to {got}, expected'
                           f' {cname}'))
        if HandHistory.variants.get(getattr(pokerkit, cname)) != code:
            viols.append(V(ID, 'phh_code', 'reverse:' + code,
                           f'{cname} is written as'
                           f' {HandHistory.variants.get(getattr(pokerkit, cname))!r}'))
    if set(HandHistory.game_types) != set(PHH_CODES):
        viols.append(V(ID, 'phh_code', 'set',
                       f'codes {sorted(HandHistory.game_types)}'))
    return viols, dict(evaluations=n, distinct_nontrivial=0, samples=[])


def budget(tier):
    if tier == 'quick':
        return dict(examples=5000, wall=100)
    return dict(examples=90000, wall=1500)


def strategy(tier):
    common = dict(unknown=False, tape_size=110, rake=False, divmods=False,
                  custom=False)
    return st.one_of(
        gen.cases(profiles=(1, 2, 1, 0), **common),
        gen.cases(profiles=(1, 2, 5), short_bias=True, **common),
        gen.cases(profiles=(1, 5), games=('FO8', 'F7S8', 'PO', 'FT', 'FR',
                                          'FB', 'F2L3D'), **common),
        # "pot-limit up to the pot" also when the house takes a rake
        gen.cases(profiles=(1, 2, 5), games=('PO', 'PO', 'NT', 'FT'),
                  **dict(common, rake=True)),
        # stacks that are "not mentioned" (math.inf, README)
        gen.cases(profiles=(1, 2, 5), games=('PO', 'PO', 'NT', 'FT', 'FO8'),
                  inf_stacks=True, chips=('int',), **common),
    )


def check(case, stats):
    cfg = case['config']
    t = TABLE[cfg['game']]
    small, big = chip(cfg, cfg['sb']), chip(cfg, cfg['bb'])

    def params(s):
        w = t['streets'][s.street_index] if s.street_index < len(
            t['streets']) else t['streets'][-1]
        return (small if w['bet'] == 'small' else big, t['cap'],
                t['structure'])

    m = Model(cfg, stats, params=params, prop=ID)
    res = run_case(case, hooks=m, observers=(m.observe,))
    stats.count('outcome:' + str(res.outcome))
    if res.outcome == 'discard':
        return []
    out = []
    if res.state is not None:
        out += static_check(cfg, res.state)
    out += list(m.viol)
    if res.outcome in ('crash', 'hang', 'runaway') and not out:
        out.append(V(ID, 'engine_crash', exc_key(res.exc),
                     f'{type(res.exc).__name__}: {res.exc}'))
    if res.state is None or out:
        return out
    s = res.state
    ops = s.operations
    # split games award a low half when a live hand qualifies
    hilo = False
    if len(t['hands']) == 2 and res.outcome == 'done':
        pushes = [o for o in ops if op_kind(o) == 'push_chips'
                  and o.board_index is not None]
        if pushes:
            hilo = True
            low = t['hands'][1]
            pots = list(s.pots)
            groups = {}
            for o in pushes:
                groups.setdefault((o.pot_index, o.board_index), {})[
                    o.hand_type_index] = sum(o.amounts)
            for (pi, j), per in groups.items():
                board = [rs(c) for c in s.get_board_cards(j)]
                elig = pots[pi].player_indices if pi < len(pots) else ()
                qual = any(
                    s.statuses[i] and refeval.best(
                        low, [rs(c) for c in s.get_up_cards(i)], board)
                    is not None for i in elig)
                if 1 in per and not qual:
                    out.append(V(ID, 'low_half', cfg['game'],
                                 f'pot {pi} board {j}: a low half'
                                 f' {per[1]} is pushed but no contender'
                                 ' qualifies'))
                    break
                amount = per.get(0, 0)
                enough = amount >= 2 if cfg.get('chip', 'int') == 'int' \
                    else amount > 0
                if qual and 1 not in per and enough:
                    out.append(V(ID, 'low_half', cfg['game'],
                                 f'pot {pi} board {j}: a contender'
                                 f' qualifies for low but the whole'
                                 f' {amount} went to the high hand'))
                    break
    # classification
    per_round = 0
    best = 0
    for o in ops:
        k = op_kind(o)
        if k == 'complete_bet_or_raise_to':
            per_round += 1
            best = max(best, per_round)
        elif k in ('deal_hole', 'deal_board', 'burn_card',
                   'stand_pat_or_discard'):
            per_round = 0
    stats.count('game:' + cfg['game'])
    if best >= 2:
        stats.count('class:two_raises_in_a_round')
    if best >= 4:
        stats.count('class:capped_round')
    if hilo:
        stats.count('class:hilo_showdown')
    nontrivial = best >= 2 or hilo
    if nontrivial:
        stats.count('nontrivial')
        stats.mark_nontrivial((sorted(cfg.items(), key=str),
                               tuple(map(repr, ops))))
    stats.sample(dict(config=cfg, operations=describe_ops(s, 40)),
                 nontrivial)
    return out
