"""C16 - PHH save/load round trip and replay.

Hands of the eleven PHH variants are played by the history engine, written
with ``HandHistory.from_game_state(...).dumps()``, read back and replayed.
Oracle: loads(dumps(h)) == h and dumps is a fixed point; the replay yields the
original player-level operations (kind, player, amount, cards), final stacks
and payoffs; the history regenerated from the replayed state dumps to the same
text; a truncated history replays to a prefix-compatible state; a history made
inapplicable raises ValueError when iterated (never stops early silently).
"""
from __future__ import annotations

import datetime
import warnings
from decimal import Decimal

from hypothesis import strategies as st

from .. import gen
from ..engine import (
    GAMES,
    Interp,
    NOT_ENOUGH_CARDS,
    build_state,
    describe_ops,
    exc_key,
    is_engine_exception,
    observing,
    op_kind,
    patch_shuffled,
    _runaway_observer,
)
from ..runner import V
from ..engine import is_engine_exception as _is_engine_exception

from pokerkit import HandHistory

ID = 'C16'
RULE = (
    'cases = (config, tape, metadata, user fields, truncation point,'
    ' corruption): the 11 PHH variants, single board, single run-out, int'
    ' and Decimal chips, trimmed/untrimmed antes with short stacks, known and'
    ' unknown face-down cards, commentaries, out-of-turn shows; optional'
    ' metadata fields and user-defined fields of type str (incl.'
    ' apostrophes), int (incl. 0), bool (incl. false), Decimal, time, lists'
    ' and inline tables. Oracle: loads(dumps(h)) == h; dumps(loads(dumps(h)))'
    ' == dumps(h); replay gives the original player-level operations, stacks'
    ' and payoffs; from_game_state(replayed state) dumps to the same text;'
    ' truncated histories replay to a state whose operations extend the'
    ' original ones; a corrupted history (amount above the stack, discard of'
    ' a card not held, action after the end) raises ValueError on iteration.'
    ' Non-trivial = hand reaching a showdown or containing a draw, or a'
    ' short-stacked ante; distinct = distinct dumped texts.'
)
ASSUMPTIONS = [
    'strings are single-line without control characters and without three'
    ' consecutive apostrophes (the writer uses TOML literal strings only);'
    ' keys are bare TOML keys with the documented "_" prefix',
]

PHH_GAMES = ('FT', 'NT', 'NS', 'PO', 'FO8', 'F7S', 'F7S8', 'FR', 'N2L1D',
             'F2L3D', 'FB')
PLAYER_KINDS = ('deal_hole', 'deal_board', 'stand_pat_or_discard',
                'post_bring_in', 'fold', 'check_or_call',
                'complete_bet_or_raise_to', 'show_or_muck_hole_cards')

# "arbitrary user fields": any text a program may hold - quotes in any
# number and position, line breaks, tabs, other control characters
TEXT = st.one_of(
    st.text(
        alphabet=st.sampled_from(
            list("abcXYZ 0123456789_-.,:;!?/\\\"#=[]{}()'éü€")),
        max_size=12),
    st.text(
        alphabet=st.sampled_from(list("ab'\"\n\t\r\\ #\x00\x1b\x7f€")),
        max_size=8),
)
KEYS = st.one_of(
    st.text(alphabet=st.sampled_from(list('abcdefXYZ019_-')), min_size=1,
            max_size=8),
    st.text(alphabet=st.sampled_from(list("ab.# 'é\"=[]")), min_size=1,
            max_size=6),
).map(lambda k: '_' + k)
SCALARS = st.one_of(
    TEXT, st.integers(-10 ** 6, 10 ** 6), st.booleans(),
    st.sampled_from([Decimal('0.5'), Decimal('12.25'), Decimal('-3.125'),
                     Decimal('100.01')]),
    st.times().map(lambda t: t.replace(microsecond=0, tzinfo=None)),
    st.dates(), st.datetimes().map(lambda t: t.replace(microsecond=0)),
    st.just(0), st.just(False), st.just(''),
)
VALUES = st.one_of(
    SCALARS,
    st.lists(st.integers(-100, 100), max_size=4),
    st.lists(TEXT, max_size=3),
    st.dictionaries(st.text(alphabet=st.sampled_from(list('abcxyz_')),
                            min_size=1, max_size=5), st.one_of(
        st.integers(-100, 100), TEXT, st.booleans()), max_size=3),
)


@st.composite
def metadata(draw, n):
    md = {}
    opts = {
        'author': TEXT, 'event': TEXT, 'url': TEXT, 'venue': TEXT,
        'address': TEXT, 'city': TEXT, 'region': TEXT, 'postal_code': TEXT,
        'country': TEXT,
        'time': st.times().map(lambda t: t.replace(microsecond=0,
                                                   tzinfo=None)),
        'time_zone': TEXT, 'day': st.integers(1, 28),
        'month': st.integers(1, 12), 'year': st.integers(1990, 2030),
        'hand': st.one_of(st.integers(0, 10 ** 6), TEXT),
        'level': st.integers(0, 50),
        'seats': st.permutations(list(range(1, n + 1))),
        'seat_count': st.integers(n, 10),
        'table': st.one_of(st.integers(0, 999), TEXT),
        'players': st.lists(TEXT, min_size=n, max_size=n),
        'currency': st.sampled_from(['USD', 'EUR', '']),
        'currency_symbol': st.sampled_from(['$', '€', '']),
        'time_limit': st.integers(0, 120),
        'time_banks': st.lists(st.integers(0, 300), min_size=n, max_size=n),
    }
    for name in draw(st.lists(st.sampled_from(sorted(opts)), max_size=6,
                              unique=True)):
        md[name] = draw(opts[name])
    return md


@st.composite
def c16_case(draw):
    case = draw(gen.cases(
        games=PHH_GAMES, custom=False, tape_size=90, rake=False,
        divmods=True, boards=(1,), chips=('int', 'int', 'dec', 'decn'),
        unknown=True, profiles=(0, 1, 4, 5, 5),
    ))
    cfg = case['config']
    cfg['single_runout'] = True
    cfg['via_game'] = True
    cfg['commentary'] = draw(st.booleans())
    if cfg.get('unknown'):
        cfg['autos'] &= ~(1 << 7)
    case['meta'] = draw(metadata(cfg['n']))
    user = draw(st.dictionaries(KEYS, VALUES, max_size=4))
    case['user'] = user
    case['truncate'] = draw(st.one_of(st.none(), st.integers(0, 60)))
    case['corrupt'] = draw(st.sampled_from([None, None, 'amount',
                                            'after_end', 'discard',
                                            'edits', 'edits']))
    case['file_hands'] = draw(st.sampled_from([0, 0, 1, 2, 3, 11, 12, 23]))
    if case['corrupt'] == 'edits':
        # generated edits of the action list (delete / duplicate / swap a
        # line, relabel the player, change an amount, drop a board card,
        # append a line): the result is either still a hand - then every
        # line must be applied, in order - or it must be reported
        case['edits'] = draw(st.lists(
            st.tuples(st.sampled_from(['del', 'dup', 'swap', 'player',
                                       'amount', 'cut_cards', 'append']),
                      st.integers(0, 200), st.integers(0, 10 ** 4)),
            min_size=1, max_size=3))
    return case


def budget(tier):
    if tier == 'quick':
        return dict(examples=4000, wall=100)
    return dict(examples=60000, wall=1500)


def strategy(tier):
    return c16_case()


def same_history(a, b):
    """Field-wise equality of two hand histories, callables (divmod, rake,
    value parser - not part of the file format, and a deep copy of a
    functools.partial does not compare equal to the original) left out."""
    import dataclasses
    for f in dataclasses.fields(a):
        x, y = getattr(a, f.name), getattr(b, f.name)
        if callable(x) and callable(y):
            continue
        if x != y:
            return False
    return True


def player_ops(ops):
    """Player-level content: per-player dealt hole cards (concatenated, the
    writer merges consecutive deals), board cards in order, and the sequence
    of decisions."""
    hole = {}
    board = []
    seq = []
    for o in ops:
        k = op_kind(o)
        if k == 'deal_hole':
            hole.setdefault(o.player_index, []).extend(o.cards)
        elif k == 'deal_board':
            board.extend(o.cards)
        elif k == 'stand_pat_or_discard':
            seq.append((k, o.player_index, tuple(o.cards)))
        elif k in ('post_bring_in', 'check_or_call',
                   'complete_bet_or_raise_to'):
            seq.append((k, o.player_index, o.amount))
        elif k == 'fold':
            seq.append((k, o.player_index))
        elif k == 'show_or_muck_hole_cards':
            seq.append((k, o.player_index, tuple(o.hole_cards)))
    return hole, board, seq


def _jsonable(v):
    if isinstance(v, (datetime.time, Decimal)):
        return str(v)
    if isinstance(v, dict):
        return {k: _jsonable(x) for k, x in v.items()}
    if isinstance(v, (list, tuple)):
        return [_jsonable(x) for x in v]
    return v


def check(case, stats):
    cfg = case['config']
    out = []
    patch_shuffled(True)
    with warnings.catch_warnings():
        warnings.simplefilter('ignore')
        with observing(_runaway_observer):
            try:
                it = Interp(cfg, case['tape'])
                n = 0
                limit = case.get('truncate')
                while it.state.status and (limit is None or n < limit):
                    if it.step() is None:
                        break
                    n += 1
                # a partial history is cut only where no face-up card is
                # owed: the replay deals owed cards as unknown ones, and an
                # unknown up-card cannot decide a stud opener (the engine
                # then fails with KeyError - reported, but not a replay)
                stud = cfg['game'] in ('F7S', 'F7S8', 'FR')
                while it.state.status and (any(
                        any(d) for d in it.state.hole_dealing_statuses)
                        or (stud and it.state.actor_index is None)):
                    if it.step() is None:
                        break
            except Exception as e:  # noqa: BLE001
                if not is_engine_exception(e):
                    raise
                if isinstance(e, ValueError):
                    stats.count('discard_or_refused')
                    return []
                return [V(ID, 'engine_crash', exc_key(e), repr(e))]
            s = it.state
            game = s._pkv_game
            terminal = not s.status
            kwargs = dict(case.get('meta') or {})
            for k, v in (case.get('user') or {}).items():
                kwargs[k] = v
            # the JSON replay form stores time/Decimal as text
            for k, v in list(kwargs.items()):
                if k == 'time' and isinstance(v, str):
                    kwargs[k] = datetime.time.fromisoformat(v)
            if cfg.get('divmod') == 'custom':
                # a user divmod is not part of the file format: it is handed
                # to the history (documented field) when saving and loading
                from ..engine import _chunk_divmod
                kwargs['divmod'] = _chunk_divmod
                stats.count('class:custom_divmod')
            try:
                h = HandHistory.from_game_state(game, s, **kwargs)
                text = h.dumps()
            except Exception as e:  # noqa: BLE001
                if not _is_engine_exception(e):
                    raise     # harness fault: exit 2
                return [V(ID, 'dump_failed', exc_key(e),
                          f'{type(e).__name__}: {e}')]
            try:
                h2 = HandHistory.loads(text, **(
                    {'divmod': kwargs['divmod']} if 'divmod' in kwargs
                    else {}))
            except Exception as e:  # noqa: BLE001
                if not _is_engine_exception(e):
                    raise     # harness fault: exit 2
                return [V(ID, 'load_failed', type(e).__name__,
                          f'{type(e).__name__}: {e}; text:\n{text[:600]}')]
            if h2 != h:
                import dataclasses
                diff = [f.name for f in dataclasses.fields(h)
                        if getattr(h, f.name) != getattr(h2, f.name)]
                det = {k: (getattr(h, k), getattr(h2, k)) for k in diff}
                out.append(V(ID, 'roundtrip_object_differs', ','.join(diff),
                             f'fields {det}'))
                return out
            # "the same hand history": the same numbers of the same kind
            # (Decimal('1E+2') == 100 is true, yet an integer table splits
            # pots differently from a Decimal one)
            import dataclasses as _dc
            for f_ in _dc.fields(h):
                a_, b_ = getattr(h, f_.name), getattr(h2, f_.name)
                la = list(a_) if isinstance(a_, (list, tuple)) else [a_]
                lb = list(b_) if isinstance(b_, (list, tuple)) else [b_]
                for x_, y_ in zip(la, lb):
                    # (a number whose text is a plain integer literal, such
                    # as Decimal('1'), is an int to any reader of the text:
                    # the format cannot tell - not judged)
                    if isinstance(x_, (int, float, Decimal)) and \
                            not isinstance(x_, bool) and \
                            type(x_) is not type(y_) and \
                            not str(x_).lstrip('-').isdigit():
                        out.append(V(
                            ID, 'roundtrip_number_type', f_.name,
                            f'{f_.name}: {x_!r} ({type(x_).__name__}) was'
                            f' read back as {y_!r} ({type(y_).__name__})'))
                        return out
            if h2.ante_trimming_status != s.ante_trimming_status:
                out.append(V(ID, 'field_not_written', 'ante_trimming_status',
                             f'state {s.ante_trimming_status} history'
                             f' {h2.ante_trimming_status}'))
                return out
            # the same text with Windows line ends / without a final newline
            # is the same history
            for label, variant in (('crlf', text.replace('\n', '\r\n')),
                                   ('no_final_newline', text.rstrip('\n'))):
                try:
                    hv = HandHistory.loads(variant, **(
                        {'divmod': kwargs['divmod']} if 'divmod' in kwargs
                        else {}))
                except Exception as e:  # noqa: BLE001
                    if not _is_engine_exception(e):
                        raise
                    out.append(V(ID, 'load_failed', label,
                                 f'{label}: {type(e).__name__}: {e}'))
                    return out
                if not same_history(hv, h):
                    out.append(V(ID, 'roundtrip_object_differs', label,
                                 f'the text with {label} loads as a'
                                 ' different history'))
                    return out
            text2 = h2.dumps()
            if text2 != text:
                out.append(V(ID, 'dumps_not_fixed_point', '',
                             f'first:\n{text[:400]}\nsecond:\n{text2[:400]}'))
                return out
            # nothing that was not given may appear (a field leaking from
            # another history of this process, say)
            given = set((case.get('user') or {}))
            extra_f = set(h2.user_defined_fields or {}) - given
            if extra_f:
                out.append(V(ID, 'user_field_invented', '',
                             f'fields {sorted(extra_f)} were never given;'
                             f' user fields given: {sorted(given)}'))
                return out
            if given:
                # the same hand saved again without the user fields, in the
                # same process: histories do not share state
                meta_only = {k: v for k, v in kwargs.items()
                             if k not in given}
                hp = HandHistory.from_game_state(game, s, **meta_only)
                hp2 = HandHistory.loads(hp.dumps())
                leak = set(hp.user_defined_fields or {}) | \
                    set(hp2.user_defined_fields or {})
                if leak:
                    out.append(V(ID, 'user_field_invented', 'leak',
                                 f'a second history of the same hand, built'
                                 f' without user fields, carries'
                                 f' {sorted(leak)}'))
                    return out
            # several hands in one file: same hands, same order; the binary
            # file API agrees with the text API
            k = case.get('file_hands') or 0
            if k:
                import copy as _copy
                import io
                hs = []
                for i in range(k):
                    hi = _copy.deepcopy(h2)
                    hi.hand = 100 + i
                    hs.append(hi)
                try:
                    ftext = HandHistory.dumps_all(hs)
                    back = list(HandHistory.loads_all(ftext))
                    fp = io.BytesIO()
                    HandHistory.dump_all(hs, fp)
                    fp.seek(0)
                    back2 = list(HandHistory.load_all(fp))
                    fp1 = io.BytesIO()
                    hs[0].dump(fp1)
                    fp1.seek(0)
                    one = HandHistory.load(fp1)
                except Exception as e:  # noqa: BLE001
                    if not _is_engine_exception(e):
                        raise
                    out.append(V(ID, 'multi_hand_file_failed', exc_key(e),
                                 f'{k} hands: {type(e).__name__}: {e}'))
                    return out
                stats.count('class:multi_hand_file')
                if [b.hand for b in back] != [x.hand for x in hs] or \
                        len(back) != len(hs) or not all(
                            same_history(x, y) for x, y in zip(back, hs)):
                    out.append(V(ID, 'multi_hand_file_differs', 'loads_all',
                                 f'{k} hands written with hand numbers'
                                 f' {[x.hand for x in hs]}, read back'
                                 f' {[b.hand for b in back]}'))
                    return out
                if len(back2) != len(hs) or not all(
                        same_history(x, y) for x, y in zip(back2, hs)) \
                        or not same_history(one, hs[0]):
                    out.append(V(ID, 'multi_hand_file_differs', 'file_api',
                                 f'load_all/load of what dump_all/dump wrote'
                                 f' differs from the text API ({k} hands)'))
                    return out
                if HandHistory.dumps_all(back) != ftext:
                    out.append(V(ID, 'multi_hand_file_differs', 'fixed_point',
                                 f'dumps_all(loads_all(text)) != text'))
                    return out
            # user fields really present in the text
            for k, v in (case.get('user') or {}).items():
                if h2.user_defined_fields.get(k, '<missing>') != v:
                    out.append(V(ID, 'user_field_lost', type(v).__name__,
                                 f'{k} = {v!r} became'
                                 f' {h2.user_defined_fields.get(k, "<missing>")!r}'))
                    return out
            # replay
            try:
                states = list(h2)
                rs_ = states[-1]
            except Exception as e:  # noqa: BLE001
                if not _is_engine_exception(e):
                    raise     # harness fault: exit 2
                out.append(V(ID, 'replay_failed', exc_key(e),
                             f'{type(e).__name__}: {e}; actions'
                             f' {h2.actions[:40]}'))
                return out
            oh, ob, oseq = player_ops(s.operations)
            rh, rb, rseq = player_ops(rs_.operations)
            if terminal:
                same = (oh, ob, oseq) == (rh, rb, rseq)
            else:
                same = ob == rb[:len(ob)] and oseq == rseq[:len(oseq)] \
                    and all(rh.get(i, [])[:len(c)] == c
                            for i, c in oh.items())
            if not same:
                out.append(V(ID, 'replayed_operations_differ', '',
                             f'original decisions {oseq[-6:]} hole {oh}'
                             f' board {ob}; replay {rseq[-6:]} hole {rh}'
                             f' board {rb}; actions {h2.actions[-8:]}'))
                return out
            # a Decimal whose text is a plain integer literal (Decimal('1'))
            # is an int to any reader of the file, and an all-integer table
            # splits odd pots by whole chips: the format cannot carry the
            # difference, so results of such histories are not compared
            ambiguous = any(
                isinstance(x, Decimal) and str(x).lstrip('-').isdigit()
                for f_ in ('antes', 'blinds_or_straddles', 'starting_stacks')
                for x in (getattr(h, f_) or ())) or any(
                isinstance(getattr(h, f_, None), Decimal)
                and str(getattr(h, f_)).lstrip('-').isdigit()
                for f_ in ('min_bet', 'small_bet', 'big_bet', 'bring_in'))
            if ambiguous and terminal:
                stats.count('not_judged:integral_decimal_reads_back_as_int')
            if terminal and not ambiguous:
                if list(rs_.stacks) != list(s.stacks) or \
                        list(rs_.payoffs) != list(s.payoffs) or rs_.status:
                    out.append(V(ID, 'replayed_result_differs', '',
                                 f'original stacks {s.stacks} payoffs'
                                 f' {s.payoffs}; replay {rs_.stacks}'
                                 f' {rs_.payoffs} status {rs_.status}'))
                    return out
                h3 = HandHistory.from_game_state(h2.create_game(), rs_,
                                                 **kwargs)
                text3 = h3.dumps()
                if text3 != text:
                    out.append(V(ID, 'regenerated_text_differs', '',
                                 f'original actions {h.actions[-8:]},'
                                 f' regenerated {h3.actions[-8:]}'))
                    return out
            # corrupted histories must be reported
            how = case.get('corrupt')
            if how and terminal and h2.actions:
                import copy
                hc = copy.deepcopy(h2)
                applied = False
                if how == 'after_end':
                    hc.actions.append('p1 f')
                    applied = True
                elif how == 'amount':
                    for j, a in enumerate(hc.actions):
                        w = a.split()
                        if len(w) >= 3 and w[1] == 'cbr':
                            w[2] = str(10 ** 9)
                            hc.actions[j] = ' '.join(w)
                            applied = True
                            break
                elif how == 'discard':
                    for j, a in enumerate(hc.actions):
                        w = a.split()
                        if len(w) >= 2 and w[1] == 'sd':
                            pi = int(w[0][1:]) - 1
                            held = {repr(c) for c in oh.get(pi, [])}
                            alien = next(
                                (r + su for r in '23456789TJQKA'
                                 for su in 'cdhs' if r + su not in held
                                 and all(r + su not in map(repr, cs)
                                         for cs in oh.values())), None)
                            if alien:
                                hc.actions[j] = f'{w[0]} sd {alien}'
                                applied = True
                                break
                elif how == 'edits':
                    acts = list(hc.actions)
                    nplayers = len(h2.starting_stacks)
                    for op, i, v in case.get('edits') or []:
                        if not acts:
                            break
                        i %= len(acts)
                        w = acts[i].split()
                        if op == 'del':
                            del acts[i]
                        elif op == 'dup':
                            acts.insert(i, acts[i])
                        elif op == 'swap' and i + 1 < len(acts):
                            acts[i], acts[i + 1] = acts[i + 1], acts[i]
                        elif op == 'player' and w[0].startswith('p'):
                            w[0] = f'p{v % nplayers + 1}'
                            acts[i] = ' '.join(w)
                        elif op == 'amount' and len(w) >= 3 and w[1] == 'cbr':
                            w[2] = str(v)
                            acts[i] = ' '.join(w)
                        elif op == 'cut_cards' and w[:2] == ['d', 'db'] \
                                and len(w[2]) > 2:
                            w[2] = w[2][:-2]
                            acts[i] = ' '.join(w)
                        elif op == 'append':
                            acts.append(['p1 f', 'p2 cc', 'd db As',
                                         'p1 sm', 'd dh p1 AsKs'][v % 5])
                    if acts != list(hc.actions):
                        hc.actions[:] = acts
                        stats.count('corrupted:edits')
                        try:
                            done = [a for _, a in hc.state_actions
                                    if a is not None]
                            raised = False
                        except Exception as e:  # noqa: BLE001
                            if not _is_engine_exception(e):
                                raise
                            raised = True
                            stats.count('edited_history:reported')
                        if not raised:
                            stats.count('edited_history:still_a_hand')
                            if done != acts:
                                out.append(V(
                                    ID, 'edited_history_silently_truncated',
                                    '', f'{len(done)} of {len(acts)} action'
                                    f' lines were applied without an error;'
                                    f' first difference at'
                                    f' {next((k for k, (x, y) in enumerate(zip(done, acts)) if x != y), len(done))};'
                                    f' actions {acts[-8:]}'))
                                return out
                if applied:
                    stats.count('corrupted:' + how)
                    try:
                        list(hc)
                        raised = False
                    except Exception:  # noqa: BLE001
                        # "reported as an error": ValueError normally; any
                        # exception is a report, silence is the violation
                        raised = True
                    if not raised:
                        out.append(V(ID, 'corrupted_history_not_reported',
                                     how, f'actions {hc.actions[-6:]}'))
                        return out
    kinds = {op_kind(o) for o in s.operations}
    flags = set()
    if 'show_or_muck_hole_cards' in kinds:
        flags.add('showdown')
    if 'stand_pat_or_discard' in kinds:
        flags.add('draw')
    if any(op_kind(o) == 'post_ante' and o.amount < max(s.antes)
           for o in s.operations):
        flags.add('short_ante')
    if cfg.get('unknown'):
        flags.add('unknown_cards')
    if not terminal:
        flags.add('truncated')
    if case.get('user'):
        flags.add('user_fields')
    for f in flags:
        stats.count('class:' + f)
    stats.count('variant:' + h.variant)
    stats.count('chip:' + cfg['chip'])
    nontrivial = bool(flags & {'showdown', 'draw', 'short_ante'})
    if nontrivial:
        stats.count('nontrivial')
        stats.mark_nontrivial(text)
    stats.sample(dict(phh=text[:1500]), nontrivial)
    return out
