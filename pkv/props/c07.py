"""C07 - every hand runs to completion through the documented phases.

Oracle: (1) the constructor and every step chosen from the enabled set
complete without an exception; (2) at every quiescent state the sixteen
default queries, mapped to phases, show exactly one active phase while the
hand is on and none when it is over; (3) the operation log is a word of the
documented phase automaton (written from docs/simulation.rst, not from the
code); (4) each step appends at least one operation; (5) the hand ends
within a config-derived bound.
"""
from __future__ import annotations

from hypothesis import strategies as st

from .. import gen
from ..engine import (
    observed_phase,
    FULL_MASK,
    Hooks,
    KINDS,
    CAN,
    PHASE,
    describe_ops,
    exc_key,
    op_kind,
    run_case,
)
from ..runner import V
from ..engine import is_engine_exception as _is_engine_exception

ID = 'C07'
RULE = (
    'cases = (config, tape) with the automation subset as a first-class'
    ' dimension (random masks, singletons, complements, empty, full; thorough'
    ' additionally draws uniformly from all 2048), all variants + custom'
    ' street lists, both modes, short-stack (all-in prone) and deep layouts.'
    ' Oracle: no exception from constructor/enabled operation; at each'
    ' quiescent state exactly one phase has enabled operations (none when'
    ' over); the log is a word of the documented phase automaton; each step'
    ' appends >= 1 operation; termination within a config-derived bound.'
    ' Non-trivial = some automation missing while a later one is present and'
    ' a player is all-in before the last street (re-entrant cascade shape),'
    ' or a hand reaching showdown with partial automation; distinct ='
    ' distinct (config, log) hashes.'
)
ASSUMPTIONS = [
    'deck large enough for the requested deal (discarded and counted'
    ' otherwise)',
    'showdown hands known',
    'termination is checked as a bound, not proved',
]

# documented phase graph (docs/simulation.rst "phases"): from -> allowed next
NEXT = {
    'start': {'ante', 'blind', 'deal'},
    'ante': {'collect0'},
    'collect0': {'blind', 'deal'},
    'blind': {'deal'},
    'deal': {'bet', 'collect', 'showdown', 'kill', 'push', 'pull'},
    'bet': {'collect', 'deal', 'showdown', 'kill', 'push', 'pull'},
    'collect': {'deal', 'showdown', 'kill', 'push', 'pull'},
    'showdown': {'deal', 'kill', 'push', 'pull'},
    'kill': {'push', 'pull'},
    'push': {'pull'},
    'pull': set(),
}
# 'push' may be skipped only when no pot holds chips (e.g. an uncalled blind
# that goes straight back to its owner); 'pull' only when nobody has chips in
# front of him (e.g. 100 % rake).  Both conditions are checked on the state.


def phase_word(ops):
    word = []
    for op in ops:
        k = op_kind(op)
        if k is None:
            continue
        p = PHASE[k]
        if p == 'collect' and word and word[-1] in ('ante', 'collect0'):
            p = 'collect0'
        if not word or word[-1] != p:
            word.append(p)
    return word


def check_word(word, terminal):
    prev = 'start'
    shown = False
    for p in word:
        if p not in NEXT[prev]:
            return f'{prev} -> {p}'
        if shown and p in ('bet', 'collect'):
            return f'{p} after showdown'
        if p == 'showdown':
            shown = True
        prev = p
    return None


def op_bound(cfg, state):
    n = cfg['n']
    streets = len(state.streets)
    hole = sum(len(s.hole_dealing_statuses) for s in state.streets)
    unit = min(s.min_completion_betting_or_raising_amount
               for s in state.streets)
    raises = int(sum(state.starting_stacks) / unit) + n
    caps = [s.max_completion_betting_or_raising_count for s in state.streets]
    if all(c is not None for c in caps):
        raises = min(raises, sum(caps) + streets)
    betting = streets * n + raises * n
    dealing = 4 * cfg.get('boards', 1) * (streets * (2 + n * (hole + 5)))
    draws = streets * n * 6
    settle = 6 * n + 40 * cfg.get('boards', 1) * 4
    return 20 + betting + dealing + draws + settle


class H(Hooks):
    def __init__(self):
        self.viol = []
        self.nops_before = 0
        self.states = 0

    def quiescent(self, it):
        s = it.state
        self.states += 1
        phases = set()
        for k in KINDS:
            try:
                r = getattr(s, CAN[k])()
            except Exception as e:  # noqa: BLE001
                if not _is_engine_exception(e):
                    raise     # harness fault: exit 2
                self.viol.append(V(ID, 'query_raised', k,
                                   f'{CAN[k]}() raised {e!r}'))
                return
            if r:
                phases.add(PHASE[k])
        if s.status and len(phases) != 1 and not self.viol:
            self.viol.append(V(
                ID, 'phase_exclusivity', ','.join(sorted(phases)) or 'none',
                f'status=True but active phases={sorted(phases)} after'
                f' {len(s.operations)} operations'))
        if not s.status and phases and not self.viol:
            self.viol.append(V(
                ID, 'operation_after_end', ','.join(sorted(phases)),
                f'hand over but phases {sorted(phases)} still enabled'))

    def before(self, it, kind, args):
        self.nops_before = len(it.state.operations)

    def after(self, it, kind, args, result):
        if len(it.state.operations) <= self.nops_before and not self.viol:
            self.viol.append(V(ID, 'no_progress', kind,
                               f'{kind}{args} appended no operation'))


# coverage-guided campaign (pkv/fuzz.py): same strategy and oracle driven by
# libFuzzer through Hypothesis' fuzz_one_input; pokerkit instrumented
FUZZ = dict(
    quick=dict(procs=8, runs=150, wall=60, pool=48),
    thorough=dict(procs=16, runs=6000, wall=900),
)


class AllIn:
    """When a betting round is collected and nobody (or only one player)
    still has chips while at least two players remain and streets are still
    to come, the hands are tabled first (all-in showdown) and the remaining
    streets are run out afterwards - never the other way round."""

    def __init__(self):
        self.viol = []
        self.expect = None
        self.shown = False

    def __call__(self, s, op):
        k = op_kind(op) if op is not None else None
        if k is None:
            return
        if self.expect is not None and not self.viol:
            if k in ('burn_card', 'deal_hole', 'deal_board',
                     'stand_pat_or_discard'):
                self.viol.append(V(
                    ID, 'run_out_before_all_in_showdown', '',
                    f'{self.expect}; the next operation is {op!r} and no'
                    ' hand has been tabled'))
            self.expect = None
        if k in ('show_or_muck_hole_cards', 'select_runout_count'):
            self.shown = True
        if k == 'collect_bets' and not self.shown and s.status \
                and s.street_index is not None \
                and s.street_index < len(s.streets) - 1:
            live = [i for i in s.player_indices if s.statuses[i]]
            rich = [i for i in live if s.stacks[i] > 0]
            draws_to_come = any(st_.draw_status
                                for st_ in s.streets[s.street_index + 1:])
            # (while a draw is still to come the hands stay hidden and the
            # players draw first - the hands could not be tabled before)
            hidden = any(not all(s.hole_card_statuses[i]) for i in live)
            # (a hand that is face up already needs no tabling)
            if len(live) >= 2 and len(rich) <= 1 and not draws_to_come \
                    and hidden and any(
                    op_kind(o) in ('deal_hole', 'deal_board')
                    for o in s.operations):
                self.expect = (f'after {op!r} on street {s.street_index}'
                               f' players {live} remain, with chips {rich}')


def budget(tier):
    if tier == 'quick':
        return dict(examples=6400, wall=100)
    return dict(examples=140000, wall=1500)


def strategy(tier):
    base = dict(unknown=False, side_shows=True)
    pools = [
        gen.cases(tape_size=100, short_bias=True, **base),
        gen.cases(tape_size=100, **base),
    ]
    if tier != 'quick':
        pools.append(gen.cases(tape_size=140, short_bias=True,
                               mask_strategy=st.integers(0, FULL_MASK),
                               **base))
        pools.append(gen.cases(tape_size=140,
                               mask_strategy=st.integers(0, FULL_MASK),
                               **base))
    return st.one_of(*pools)


def check(case, stats):
    cfg = case['config']
    h = H()
    allin = AllIn()
    ph = observed_phase(cfg)
    if ph is not None:
        stats.count('class:observed_run')
    res = run_case(case, hooks=h, observed=ph, observers=(allin,))
    stats.count('outcome:' + str(res.outcome))
    if res.outcome == 'discard':
        return []
    out = list(h.viol) + list(allin.viol)
    if res.outcome in ('crash', 'hang', 'runaway'):
        out.append(V(ID, 'engine_crash', exc_key(res.exc),
                     f'{res.exc_stage}: {type(res.exc).__name__}: {res.exc}'
                     f' after {len(res.state.operations) if res.state else 0}'
                     ' operations'))
        return out
    if res.outcome == 'refused':
        out.append(V(ID, 'enabled_operation_refused', exc_key(res.exc),
                     f'{res.exc_stage}: {type(res.exc).__name__}: {res.exc};'
                     f' last steps {res.interp.steps[-3:] if res.interp else ""}'))
        return out
    s = res.state
    if res.outcome == 'stuck':
        out.append(V(ID, 'stuck', '',
                     f'status=True but no operation enabled after'
                     f' {len(s.operations)} operations'))
        return out
    if res.outcome == 'long' or len(s.operations) > op_bound(cfg, s):
        out.append(V(ID, 'unbounded', '',
                     f'{len(s.operations)} operations > bound'
                     f' {op_bound(cfg, s)}'))
    # the documented non-standard show (explicit index, no street in
    # progress) is not a phase of the hand
    side = set(getattr(res.interp, 'side_show_ops', ()) if res.interp
               else ())
    if side:
        stats.count('class:side_show_while_chips_are_moved')
    word = phase_word([o for j, o in enumerate(s.operations)
                       if j not in side])
    bad = check_word(word, True)
    if bad:
        out.append(V(ID, 'phase_order', bad,
                     f'phase word {word} violates documented order at {bad}'))
    pushed = [o for o in s.operations if op_kind(o) == 'push_chips']
    if 'push' not in word:
        left = sum(p.unraked_amount for p in s.pots)
        if left > 0 and sum(s.statuses) > 0:
            out.append(V(ID, 'push_skipped', '',
                         f'no chips pushing although pots hold {left}'))
    if word[-1:] != ['pull']:
        won = sum(sum(o.amounts) for o in pushed)
        if won > 0 or any(s.bets):
            out.append(V(ID, 'pull_skipped', '',
                         f'hand over without chips pulling; pushed {won},'
                         f' bets {s.bets}'))
    mask = cfg['autos']
    partial = mask not in (0, FULL_MASK)
    kinds = {op_kind(o) for o in s.operations}
    showdown = 'show_or_muck_hole_cards' in kinds
    allin_early = s.all_in_status and 'showdown' in word and \
        word.index('showdown') < len(word) - 1 and \
        'deal' in word[word.index('showdown'):]
    stats.count('mask:' + ('full' if mask == FULL_MASK else 'empty'
                           if mask == 0 else 'partial'))
    if showdown:
        stats.count('class:showdown')
    if allin_early:
        stats.count('class:allin_runout')
    if partial and allin_early:
        stats.count('class:reentrant_cascade_shape')
    stats.count('game:' + cfg['game'])
    stats.count('quiescent_states', h.states)
    nontrivial = partial and (allin_early or showdown)
    if nontrivial:
        stats.count('nontrivial')
        stats.mark_nontrivial((sorted(cfg.items(), key=str),
                               tuple(map(repr, s.operations))))
    stats.masks = getattr(stats, 'masks', set())
    stats.sample(dict(config=cfg, phase_word=word,
                      operations=describe_ops(s, 60)), nontrivial)
    return out
