"""C17 - ACPC and Pluribus protocol output describes the hand played.

A renderer written from the protocol descriptions (render_protocol, in this
file) builds, from the *original* operation log, the action string (f, c, r /
r<total chips committed>, '/' per board street), the hole cards visible from
a seat, the board and the payoffs.  They are compared with
``to_pluribus_protocol`` and with the messages of ``to_acpc_protocol`` for
every viewer seat; the loop is closed by parsing the line back with
``from_acpc_protocol`` and replaying it.
"""
from __future__ import annotations

import warnings

from hypothesis import strategies as st

from .. import gen
from ..engine import (
    Interp,
    describe_ops,
    exc_key,
    is_engine_exception,
    observing,
    op_kind,
    patch_shuffled,
    _runaway_observer,
)
from ..runner import V
from ..engine import is_engine_exception as _is_engine_exception

from pokerkit import HandHistory

ID = 'C17'
RULE = (
    'cases = (config, tape): fixed-limit and no-limit hold\'em, 2-6 players,'
    ' equal starting stacks (deep and short), blinds only, known cards, any'
    ' automation subset, terminal and mid-hand; every viewer seat. Oracle:'
    ' independent renderer of the action string (raises as total chips'
    ' committed in no-limit), street separators, visible hole cards, board'
    ' and payoffs vs to_pluribus_protocol and vs every message of'
    ' to_acpc_protocol (one S-> before each action, one <-C after the'
    ' viewer\'s own, final state); from_acpc_protocol(line) replays to the same'
    ' actions, stacks and regenerated line. Non-trivial = hand with raises'
    ' on >= 2 streets or an all-in run-out; distinct = distinct lines.'
)
ASSUMPTIONS = ['integer chips (the protocols carry integers)']


def render(ops, n, variant, position=None):
    """(actions, hole card strings per seat, board string, committed)"""
    actions = ''
    committed = [0] * n
    bets = [0] * n
    hole = [['', ''] for _ in range(n)]
    visible = [['', ''] for _ in range(n)]
    board = ''
    prev_board = False
    per_action = []   # (actor, action text, actions before)
    for o in ops:
        k = op_kind(o)
        if k != 'deal_board':
            prev_board = False
        if k in ('post_ante', 'post_blind_or_straddle'):
            committed[o.player_index] += o.amount
            bets[o.player_index] += o.amount
        elif k == 'collect_bets':
            for i in range(n):
                # uncalled chips go back to their owner
                committed[i] -= bets[i] - o.bets[i] if any(
                    b for b in o.bets) or True else 0
                bets[i] = 0
        elif k == 'fold':
            per_action.append((o.player_index, 'f', actions, list(map(list, visible)), board))
            actions += 'f'
        elif k == 'check_or_call':
            committed[o.player_index] += o.amount
            bets[o.player_index] += o.amount
            per_action.append((o.player_index, 'c', actions, list(map(list, visible)), board))
            actions += 'c'
        elif k == 'complete_bet_or_raise_to':
            delta = o.amount - bets[o.player_index]
            committed[o.player_index] += delta
            bets[o.player_index] = o.amount
            a = 'r' if variant == 'FT' else f'r{committed[o.player_index]}'
            per_action.append((o.player_index, a, actions, list(map(list, visible)), board))
            actions += a
        elif k == 'deal_hole':
            have = sum(1 for x in hole[o.player_index] if x)
            for j, c in enumerate(o.cards):
                if c and have + j < 2:
                    hole[o.player_index][have + j] = repr(c)
                    if position is not None and o.player_index == position:
                        visible[position][have + j] = repr(c)
        elif k == 'show_or_muck_hole_cards':
            for j, c in enumerate(o.hole_cards):
                if c and j < 2:
                    visible[o.player_index][j] = repr(c)
        elif k == 'deal_board':
            if not prev_board:
                actions += '/'
                board += '/'
            board += ''.join(map(repr, o.cards))
            prev_board = True
    return actions, hole, visible, board, per_action


def cards_field(slots, board):
    return '|'.join(''.join(s) for s in slots) + board


@st.composite
def c17_case(draw):
    game = draw(st.sampled_from(['FT', 'NT', 'NT']))
    n = draw(st.integers(2, 6))
    bb = draw(st.sampled_from([2, 4, 10, 100, 20000]))
    stack = draw(st.sampled_from([bb, 2 * bb + 1, 5 * bb, 20 * bb,
                                  100 * bb]))
    cfg = dict(
        game=game, custom=None, n=n,
        mode=draw(st.sampled_from(['T', 'C'])),
        autos=draw(gen.masks()), boards=1, trim=draw(st.booleans()),
        antes=[0] * n, blinds=[bb // 2, bb] + [0] * (n - 2), bring_in=0,
        sb=bb, bb=2 * bb if game == 'FT' else bb, stacks=[stack] * n,
        chip='int',
        # a raked table in a quarter of the cases: the history then records
        # the finishing stacks (documented optional field), because the PHH
        # fields do not carry the rake
        rake=draw(st.sampled_from([None, None, None, [5, 100, None, False]])),
        divmod='default',
        deck_seed=draw(st.integers(0, 10 ** 6)),
        profile=draw(st.sampled_from([0, 1, 2, 3, 5])), strict=False,
        unknown=False, rig=None, single_runout=True, via_game=True,
        # the protocols have no action for a voluntary muck or a partial
        # show: the showdown is left to the engine
        auto_show=True,
    )
    tape = draw(gen.tapes(90))
    return dict(config=cfg, tape=tape,
                compression=draw(st.sampled_from([True, True, False])),
                # standalone commentary lines between the action lines (PHH
                # syntax): they are not part of the hand
                notes=draw(st.one_of(
                    st.none(), st.none(),
                    st.lists(st.integers(0, 60), min_size=1, max_size=4),
                    st.just(list(range(0, 80, 2))),
                    st.just(list(range(1, 80, 3))))),
                strip_shows=draw(st.sampled_from([False, False, True])),
                eol=draw(st.sampled_from(['\n', '\n', '\r\n'])),
                eol_last=draw(st.booleans()),
                truncate=draw(st.one_of(st.none(), st.none(),
                                        st.integers(0, 50))))


def budget(tier):
    if tier == 'quick':
        return dict(examples=4000, wall=100)
    return dict(examples=60000, wall=1500)


def strategy(tier):
    return c17_case()


def check(case, stats):
    cfg = case['config']
    out = []
    n = cfg['n']
    variant = cfg['game']
    patch_shuffled(True)
    with warnings.catch_warnings():
        warnings.simplefilter('ignore')
        with observing(_runaway_observer):
            try:
                it = Interp(cfg, case['tape'])
                k = 0
                limit = case.get('truncate')
                while it.state.status and (limit is None or k < limit):
                    if it.step() is None:
                        break
                    k += 1
                # cut only at a betting decision or at the end
                while it.state.status and it.state.actor_index is None:
                    if it.step() is None:
                        break
            except Exception as e:  # noqa: BLE001
                if not is_engine_exception(e):
                    raise
                if isinstance(e, ValueError):
                    stats.count('refused')
                    return []
                return [V(ID, 'engine_crash', exc_key(e), repr(e))]
            s = it.state
            terminal = not s.status
            ops = list(s.operations)
            raked = bool(cfg.get('rake'))
            comp = case.get('compression', True)
            if not comp:
                # dealing lines kept as dealt (no merging/sorting by seat)
                stats.count('class:uncompressed_history')
            if raked and terminal:
                stats.count('class:raked_with_finishing_stacks')
                h = HandHistory.from_game_state(
                    s._pkv_game, s, comp, hand=7,
                    finishing_stacks=list(s.stacks))
            else:
                h = HandHistory.from_game_state(s._pkv_game, s, comp, hand=7)
            if case.get('strip_shows') and terminal:
                # a history may leave the showdown to the replay, which
                # tables the known hands itself
                h.actions = [a for a in h.actions if ' sm' not in a]
                stats.count('class:history_without_show_lines')
            if case.get('notes'):
                acts = list(h.actions)
                for k, pos in enumerate(sorted(case['notes'])):
                    acts.insert(min(len(acts), pos + k), f'# note {k}')
                h.actions = acts
                stats.count('class:standalone_commentary_lines')
            # ---- Pluribus ------------------------------------------------
            actions, hole, _, board, _ = render(ops, n, variant)
            line = None
            if variant == 'NT' and terminal:
                payoffs = '|'.join(str(x) for x in s.payoffs)
                players = '|'.join(f'p{i + 1}' for i in range(n))
                want = (f'STATE:7:{actions}:{cards_field(hole, board)}'
                        f':{payoffs}:{players}')
                try:
                    got = h.to_pluribus_protocol()
                except Exception as e:  # noqa: BLE001
                    if not _is_engine_exception(e):
                        raise     # harness fault: exit 2
                    return [V(ID, 'pluribus_raised', exc_key(e), repr(e))]
                if got != want:
                    out.append(V(ID, 'pluribus_line', '',
                                 f'engine   {got}\nexpected {want}'))
                    return out
                line = got
            # ---- ACPC, every seat ------------------------------------------
            for pos in range(n):
                acts, _, visible, brd, per_action = render(ops, n, variant,
                                                           pos)
                if not all(hole[pos]):
                    continue
                exp = []
                for actor, a, before, vis, b in per_action:
                    ms = (f'MATCHSTATE:{pos}:7:{before}:'
                          f'{cards_field(vis, b)}')
                    exp.append(('S->', ms + '\r\n'))
                    if actor == pos:
                        exp.append(('<-C', f'{ms}:{a}\r\n'))
                final = (f'MATCHSTATE:{pos}:7:{acts}:'
                         f'{cards_field(visible, brd)}')
                exp.append(('S->', final + '\r\n'))
                try:
                    got = list(h.to_acpc_protocol(pos))
                except Exception as e:  # noqa: BLE001
                    if not _is_engine_exception(e):
                        raise     # harness fault: exit 2
                    return [V(ID, 'acpc_raised', exc_key(e),
                              f'seat {pos}: {e!r}')]
                if got != exp:
                    j = next((j for j, (x, y) in enumerate(zip(got, exp))
                              if x != y), min(len(got), len(exp)))
                    out.append(V(
                        ID, 'acpc_messages', 'final' if j >= len(exp) - 1
                        else 'sequence',
                        f'seat {pos} message #{j}: engine'
                        f' {got[j] if j < len(got) else None} expected'
                        f' {exp[j] if j < len(exp) else None}'
                        f' ({len(got)} vs {len(exp)} messages)'))
                    return out
            # ---- closing the loop ----------------------------------------
            if terminal:
                if line is None:
                    payoffs = '|'.join(str(x) for x in s.payoffs)
                    players = '|'.join(f'p{i + 1}' for i in range(n))
                    line = (f'STATE:7:{actions}:{cards_field(hole, board)}'
                            f':{payoffs}:{players}')
                if actions and all(all(x) for x in hole) and not raked:
                    try:
                        hhs = list(HandHistory.from_acpc_protocol(
                            s._pkv_game, cfg['stacks'][0], line,
                            error_status=True))
                    except Exception as e:  # noqa: BLE001
                        if not _is_engine_exception(e):
                            raise     # harness fault: exit 2
                        out.append(V(ID, 'parse_back_failed', exc_key(e),
                                     f'{e!r} for {line}'))
                        return out
                    if len(hhs) != 1:
                        out.append(V(ID, 'parse_back_count', '',
                                     f'{len(hhs)} histories from one line'))
                        return out
                    try:
                        rs_ = list(hhs[0])[-1]
                    except Exception as e:  # noqa: BLE001
                        if not _is_engine_exception(e):
                            raise     # harness fault: exit 2
                        out.append(V(ID, 'parsed_history_replay_failed',
                                     exc_key(e), f'{e!r} for {line}'))
                        return out
                    ra, rh, _, rb, _ = render(rs_.operations, n, variant)
                    if (ra, rh, rb) != (actions, hole, board):
                        out.append(V(ID, 'parsed_back_hand_differs', '',
                                     f'line {line}; replay actions {ra}'
                                     f' cards {cards_field(rh, rb)}'))
                        return out
                    if list(rs_.stacks) != list(s.stacks):
                        out.append(V(ID, 'parsed_back_stacks_differ', '',
                                     f'line {line}: {rs_.stacks} vs'
                                     f' {s.stacks}'))
                        return out
                    if variant == 'NT':
                        again = hhs[0].to_pluribus_protocol()
                        if again != line:
                            out.append(V(ID, 'regenerated_line_differs', '',
                                         f'{again} vs {line}'))
                            return out
                    # a log of several lines, with the line ends the protocol
                    # itself uses (its messages end in CR LF) or a file has,
                    # is the same hands
                    eol = case.get('eol') or '\n'
                    text = line + eol + line + (eol if case.get('eol_last')
                                                else '')
                    stats.count('class:two_line_log_eol_' + repr(eol))
                    try:
                        two = list(HandHistory.from_acpc_protocol(
                            s._pkv_game, cfg['stacks'][0], text,
                            error_status=True))
                        same = len(two) == 2 and all(
                            list(t.players or []) == list(hhs[0].players or [])
                            and list(t.actions) == list(hhs[0].actions)
                            for t in two)
                    except Exception as e:  # noqa: BLE001
                        if not _is_engine_exception(e):
                            raise     # harness fault: exit 2
                        two, same = repr(e), False
                    if not same:
                        out.append(V(ID, 'log_line_ends', repr(eol),
                                     f'two copies of {line!r} joined by'
                                     f' {eol!r} gave'
                                     f' {[ (t.players, t.actions) for t in two] if isinstance(two, list) else two}'))
                        return out
    streets_with_raise = set()
    street = 0
    for o in ops:
        k = op_kind(o)
        if k == 'deal_board':
            street += 1
        elif k == 'complete_bet_or_raise_to':
            streets_with_raise.add(street)
    flags = set()
    if len(streets_with_raise) >= 2:
        flags.add('raises_on_two_streets')
    if s.all_in_status and board.count('/') >= 1:
        flags.add('all_in_runout')
    if not terminal:
        flags.add('mid_hand')
    for f in flags:
        stats.count('class:' + f)
    stats.count('variant:' + variant)
    nontrivial = bool(flags & {'raises_on_two_streets', 'all_in_runout'})
    if nontrivial:
        stats.count('nontrivial')
        stats.mark_nontrivial((actions, cards_field(hole, board)))
    stats.sample(dict(line=line or f'{actions}:{cards_field(hole, board)}',
                      operations=describe_ops(s, 30)), nontrivial)
    return out
