"""C20 - importing a poker-site log yields a history that reproduces it.

No-limit hold'em hands are played by the history engine, rendered into each
of the six supported site formats by pkv/render_sites.py (each site's own
convention for raises, card spelling and seat lines), imported, and compared
with the source hand; an illegal amount written into the log must be reported.
"""
from __future__ import annotations

import warnings
from decimal import Decimal

from hypothesis import strategies as st

from .. import gen, render_sites
from ..engine import (
    Interp,
    describe_ops,
    exc_key,
    is_engine_exception,
    observing,
    op_kind,
    patch_shuffled,
    _runaway_observer,
)
from ..runner import V
from ..engine import is_engine_exception as _is_engine_exception

from pokerkit import HandHistory

ID = 'C20'
RULE = (
    'cases = (NLHE config, tape, seat numbers with gaps and rotation, hero,'
    ' site): 2-9 players, any button seat, int and two-decimal chips, folds/'
    'calls/raises/all-ins/all-in calls for less, uncalled returns, showdown'
    ' (engine-decided shows and mucks) or not; rendered for PokerStars, Full'
    ' Tilt, PartyPoker, iPoker, Ongame and Absolute. Oracle: exactly one'
    ' history; players in position order, seats, blinds, starting stacks,'
    ' hero/shown hole cards, board cards and betting actions (raise-to'
    ' amounts) equal the source hand; its replay ends with the source'
    ' stacks; a log whose raise was rewritten to an illegal under-raise or'
    ' over-stack amount is reported (ValueError with error_status, warning'
    ' and no history otherwise). Non-trivial = hand with a raise over a'
    ' raise, an all-in call for less, or a showdown; distinct = distinct'
    ' logs.'
)
ASSUMPTIONS = [
    'there are no real corpora offline: the renderers are written from the'
    ' public formats restricted to line shapes checked against hand-written'
    ' logs (notes/probes); what is decided is consistency between a written-'
    'down convention and the importer over all hands',
    'Ongame seat lines carry a trailing character and iPoker cards are'
    ' suit-first ("sA d10") because the importer requires it (not judged)',
    'the winnings metadata is not part of the oracle; the replay is',
]

SITES = tuple(render_sites.SITES)


@st.composite
def c20_case(draw):
    n = draw(st.integers(2, 9))
    bb = draw(st.sampled_from([2, 4, 10, 100, 100, 400]))
    chip_t = draw(st.sampled_from(['int', 'int', 'dec']))
    style = draw(st.integers(0, 3))
    if style == 0:
        stacks = [draw(st.sampled_from([100 * bb, 50 * bb]))] * n
    elif style == 1:
        stacks = [draw(st.sampled_from([2 * bb, 3 * bb + 1, 5 * bb, 10 * bb,
                                        40 * bb, 100 * bb]))
                  for _ in range(n)]
    else:
        stacks = [draw(st.integers(2 * bb, 120 * bb)) for _ in range(n)]
    cfg = dict(
        game='NT', custom=None, n=n, mode=draw(st.sampled_from(['C', 'T'])),
        autos=2047, boards=1, trim=False, antes=[0] * n,
        blinds=[bb // 2, bb] + [0] * (n - 2), bring_in=0, sb=bb, bb=bb,
        stacks=stacks, chip=chip_t, rake=None, divmod='default',
        deck_seed=draw(st.integers(0, 10 ** 6)),
        profile=draw(st.sampled_from([0, 1, 1, 2, 3, 5])), strict=False,
        unknown=False, rig=None, single_runout=True, auto_show=True,
    )
    seats = sorted(draw(st.lists(st.integers(1, 10), min_size=n, max_size=n,
                                 unique=True)))
    rot = draw(st.integers(0, n - 1))
    seat_of = [seats[(p + rot) % n] for p in range(n)]
    return dict(config=cfg, tape=draw(gen.tapes(70)), seats=seat_of,
                hero=draw(st.integers(0, n - 1)),
                site=draw(st.sampled_from(SITES)),
                corrupt=draw(st.sampled_from([None, None, 'under', 'over'])),
                thousands=draw(st.booleans()),
                copies=draw(st.sampled_from([0, 0, 2, 3])),
                tricky_names=draw(st.sampled_from([False, False, True])),
                player_order=draw(st.sampled_from([0, 0, 1, 2, 3, 4])),
                cap=draw(st.booleans()), scaled=draw(st.booleans()),
                ps_header=draw(st.sampled_from(
                    [None, None, 'Game', 'Zoom Hand', 'Home Game Hand'])),
                eol=draw(st.sampled_from(['as_rendered', 'as_rendered',
                                          'no_trailing_newline',
                                          'one_trailing_newline', 'crlf',
                                          'bom'])))


def budget(tier):
    if tier == 'quick':
        return dict(examples=4000, wall=100)
    return dict(examples=60000, wall=1500)


def strategy(tier):
    return c20_case()


def source_actions(state):
    acts = []
    board = []
    for o in state.operations:
        k = op_kind(o)
        if k == 'fold':
            acts.append((o.player_index, 'f', None))
        elif k == 'check_or_call':
            acts.append((o.player_index, 'cc', None))
        elif k == 'complete_bet_or_raise_to':
            acts.append((o.player_index, 'cbr', o.amount))
        elif k == 'deal_board':
            board.append(''.join(map(repr, o.cards)))
    return acts, board


def imported_actions(hh):
    acts = []
    board = []
    hole = {}
    shown = {}
    for a in hh.actions:
        w = a.split()
        if w[:2] == ['d', 'db']:
            board.append(w[2])
        elif w[:2] == ['d', 'dh']:
            hole[int(w[2][1:]) - 1] = w[3]
        elif len(w) >= 2 and w[1] == 'f':
            acts.append((int(w[0][1:]) - 1, 'f', None))
        elif len(w) >= 2 and w[1] == 'cc':
            acts.append((int(w[0][1:]) - 1, 'cc', None))
        elif len(w) >= 3 and w[1] == 'cbr':
            acts.append((int(w[0][1:]) - 1, 'cbr', hh.parse_value(w[2])))
        elif len(w) >= 3 and w[1] == 'sm':
            shown[int(w[0][1:]) - 1] = w[2]
    return acts, board, hole, shown


def corrupt_log(rec, how, unit, bb):
    """rewrite one raise of the record so that it is illegal"""
    bets = {}
    for j, e in enumerate(rec['events']):
        if e['t'] == 'raise' and not e.get('allin') and how == 'under':
            if e['over'] >= 2 * unit and e['over'] > unit:
                faced = e['to'] - e['over']
                new = dict(e)
                new['to'] = faced + unit
                new['over'] = unit
                new['added'] = new['to'] - e['own']
                # illegal only if some opponent could call a full raise
                if new['over'] < bb and e['cap'] >= faced + bb:
                    out = dict(rec)
                    out['events'] = rec['events'][:j] + [new] + \
                        rec['events'][j + 1:]
                    return out
        if e['t'] in ('raise', 'bet') and how == 'over':
            new = dict(e)
            bump = 10 ** 7 * unit
            new['to'] = e['to'] + bump
            new['over'] = e.get('over', e['to']) + bump
            new['added'] = e['added'] + bump
            new['allin'] = False
            out = dict(rec)
            out['events'] = rec['events'][:j] + [new] + rec['events'][j + 1:]
            return out
    return None


def check(case, stats):
    cfg = case['config']
    out = []
    site = case['site']
    render, importer_name = render_sites.SITES[site]
    importer = getattr(HandHistory, importer_name)
    patch_shuffled(True)
    with warnings.catch_warnings():
        warnings.simplefilter('ignore')
        with observing(_runaway_observer):
            try:
                it = Interp(cfg, case['tape'])
                if it.run() != 'done':
                    return []
            except Exception as e:  # noqa: BLE001
                from ..engine import Discard
                if isinstance(e, Discard):
                    return []
                if not is_engine_exception(e):
                    raise
                if isinstance(e, ValueError):
                    return []
                return [V(ID, 'engine_crash', exc_key(e), repr(e))]
        s = it.state
        n = s.player_count
        from ..engine import chip
        sb, bb = chip(cfg, cfg['blinds'][0]), chip(cfg, cfg['blinds'][1])
        # blinds posted in full only (the formats have no line for less)
        posts = [o for o in s.operations
                 if op_kind(o) == 'post_blind_or_straddle']
        if len(posts) != 2 or sorted(o.amount for o in posts) != [sb, bb]:
            stats.count('skipped:short_blind')
            return []
        rec = render_sites.extract(s, case['seats'], case['hero'],
                                   bool(case.get('tricky_names')))
        if case.get('tricky_names'):
            stats.count('class:tricky_names')
        if rec.get('showdown_moved_after_runout'):
            # all-in before the river: the log shows the hands after the
            # run-out, the engine tabled them before it
            stats.count('class:allin_runout_then_show_lines')
        if site == 'full_tilt' and case.get('cap') and cfg.get('chip') == 'int':
            # a "Cap" table whose cap is above every stack (no effect)
            rec['cap'] = 2 * max(rec['stacks'])
            stats.count('class:full_tilt_cap_table')
        if site == 'pokerstars' and case.get('ps_header'):
            # the first line names the kind of table: 'Hand', the older
            # 'Game', 'Zoom Hand', 'Home Game Hand'
            rec['ps_header'] = case['ps_header']
            stats.count('class:pokerstars_header_' + case['ps_header'])
        if site == 'ipoker' and case.get('player_order'):
            rec['player_order'] = case['player_order']
            stats.count('class:ipoker_players_in_any_order')
        render_sites.THOUSANDS = bool(case.get('thousands')) and \
            site != 'pokerstars'
        try:
            log = render(rec, sb, bb)
        finally:
            sep, render_sites.THOUSANDS = render_sites.THOUSANDS, False
        if sep and ',' in log.replace(', ', ''):
            stats.count('class:thousands_separator')
        # how the file ends and which line ends it uses is not part of the
        # hand: the last hand of a file has no blank lines after it, Windows
        # files use CRLF
        eol = case.get('eol') or 'as_rendered'
        if eol == 'no_trailing_newline':
            log = log.rstrip('\n')
        elif eol == 'one_trailing_newline':
            log = log.rstrip('\n') + '\n'
        elif eol == 'crlf':
            log = log.replace('\n', '\r\n')
        elif eol == 'bom':
            # the sites' client files are UTF-8 with a byte order mark, which
            # open(..., encoding='utf-8') leaves at the start of the text
            log = '\ufeff' + log
        stats.count('eol:' + eol)
        stats.count('site:' + site)
        try:
            hhs = list(importer(log, error_status=True))
        except Exception as e:  # noqa: BLE001
            return [V(ID, 'import_failed', site,
                      f'{type(e).__name__}: {str(e)[:300]}\nlog:\n'
                      f'{log[:1500]}')]
        if len(hhs) != 1:
            return [V(ID, 'history_count', site,
                      f'{len(hhs)} histories from one hand\n{log[:800]}')]
        hh = hhs[0]
        names = rec['names'] if site != 'absolute' else \
            [x.upper() for x in rec['names']]
        if list(hh.players or []) != names:
            out.append(V(ID, 'players_order', site,
                         f'imported {hh.players}, position order {names};'
                         f' seats {case["seats"]}'))
            return out
        if list(hh.seats or []) != list(case['seats']):
            out.append(V(ID, 'seats', site,
                         f'imported {hh.seats}, source {case["seats"]}'))
            return out
        want_blinds = [sb, bb] + [0] * (n - 2)
        if [abs(x) for x in hh.blinds_or_straddles] != want_blinds or \
                any(x < 0 for x in hh.blinds_or_straddles[:2]):
            out.append(V(ID, 'blinds', site,
                         f'imported {hh.blinds_or_straddles}, source'
                         f' {want_blinds}'))
            return out
        if list(hh.starting_stacks) != list(s.starting_stacks):
            out.append(V(ID, 'starting_stacks', site,
                         f'imported {hh.starting_stacks}, source'
                         f' {list(s.starting_stacks)}'))
            return out
        sa, sboard = source_actions(s)
        ia, iboard, ihole, ishown = imported_actions(hh)
        if ia != sa:
            j = next((j for j, (x, y) in enumerate(zip(ia, sa)) if x != y),
                     min(len(ia), len(sa)))
            out.append(V(ID, 'actions', site,
                         f'action #{j}: imported'
                         f' {ia[j] if j < len(ia) else None}, source'
                         f' {sa[j] if j < len(sa) else None}; imported'
                         f' {hh.actions}'))
            return out
        if iboard != sboard:
            out.append(V(ID, 'board', site, f'{iboard} vs {sboard}'))
            return out
        hero = case['hero']
        if site not in ('absolute',):
            want = ''.join(map(repr, rec['hole'][hero]))
            got = ihole.get(hero)
            if site in ('pokerstars', 'ipoker') and got != want:
                out.append(V(ID, 'hero_cards', site, f'{got} vs {want}'))
                return out
        for e in rec['events']:
            if e['t'] == 'show':
                want = ''.join(map(repr, e['cards']))
                got = ishown.get(e['p'])
                if site == 'ipoker':
                    got = ihole.get(e['p'])
                if got != want:
                    out.append(V(ID, 'shown_cards', site,
                                 f'player {e["p"]}: {got} vs {want}'))
                    return out
        try:
            final = list(hh)[-1]
        except Exception as e:  # noqa: BLE001
            out.append(V(ID, 'replay_failed', site,
                         f'{type(e).__name__}: {e}; {hh.actions}'))
            return out
        if final.status or list(final.stacks) != list(s.stacks):
            out.append(V(ID, 'replayed_stacks', site,
                         f'replay ends with {final.stacks} (status'
                         f' {final.status}), the log with {list(s.stacks)};'
                         f' actions {hh.actions}'))
            return out
        # the caller's value parser is used for every amount: importing with
        # a parser that counts in hundredths gives the same hand, times 100
        if case.get('scaled'):
            from pokerkit.utilities import parse_value as _pv

            def cents(text):
                return _pv(text) * 100

            try:
                sc = list(importer(log, parse_value=cents,
                                   error_status=True))
            except Exception as e:  # noqa: BLE001
                if not _is_engine_exception(e):
                    raise
                out.append(V(ID, 'custom_value_parser', site,
                             f'importable log fails with a value parser in'
                             f' hundredths: {type(e).__name__}:'
                             f' {str(e)[:200]}'))
                return out
            stats.count('class:custom_value_parser')

            def times100(actions):
                res = []
                for a in actions:
                    w = a.split()
                    if len(w) >= 3 and w[1] == 'cbr':
                        w[2] = str(_pv(w[2]) * 100)
                    res.append(' '.join(w))
                return res
            ok_ = len(sc) == 1 and \
                [x * 100 for x in hh.starting_stacks] == list(
                    sc[0].starting_stacks) and \
                [x * 100 for x in hh.blinds_or_straddles] == list(
                    sc[0].blinds_or_straddles) and \
                [str(_pv(w)) for w in []] == [] and \
                times100(hh.actions) == [
                    ' '.join(str(_pv(t)) if i == 2 and a.split()[1] == 'cbr'
                             else t for i, t in enumerate(a.split()))
                    for a in sc[0].actions]
            if not ok_:
                out.append(V(ID, 'custom_value_parser', site,
                             f'with a value parser in hundredths: stacks'
                             f' {sc[0].starting_stacks if sc else None} blinds'
                             f' {sc[0].blinds_or_straddles if sc else None}'
                             f' actions {sc[0].actions if sc else None};'
                             f' default parser: {hh.starting_stacks}'
                             f' {hh.blinds_or_straddles} {hh.actions}'))
                return out
        # a file with several hands: each hand imports as it does alone
        # (nothing carries over from the hand before)
        copies = case.get('copies') or 0
        if copies >= 2 and site != 'ipoker':
            render_sites.THOUSANDS = bool(case.get('thousands')) and \
                site != 'pokerstars'
            try:
                parts = []
                for c in range(copies):
                    try:
                        parts.append(render(rec, sb, bb, 7000000 + c))
                    except TypeError:
                        parts.append(render(rec, sb, bb))
            finally:
                render_sites.THOUSANDS = False
            flog = '\n\n\n'.join(parts) + '\n'
            try:
                many = list(importer(flog, error_status=True))
            except Exception as e:  # noqa: BLE001
                if not _is_engine_exception(e):
                    raise
                out.append(V(ID, 'multi_hand_file', site,
                             f'{copies} copies of an importable hand in one'
                             f' file: {type(e).__name__}: {str(e)[:200]}'))
                return out
            stats.count('class:multi_hand_file')
            if len(many) != copies or any(
                    list(m.actions) != list(hh.actions)
                    or list(m.starting_stacks) != list(hh.starting_stacks)
                    for m in many):
                j = next((j for j, m in enumerate(many)
                          if list(m.actions) != list(hh.actions)), None)
                out.append(V(ID, 'multi_hand_file', site,
                             f'{copies} copies of one hand gave {len(many)}'
                             f' histories; hand #{j} imports as'
                             f' {many[j].actions if j is not None else None}'
                             f' instead of {hh.actions}'))
                return out
        # corrupted logs must be reported
        how = case.get('corrupt')
        if how:
            unit = chip(cfg, 1)
            bad = corrupt_log(rec, how, unit, bb)
            if bad is not None:
                stats.count('corrupted:' + how)
                blog = render(bad, sb, bb)
                try:
                    got = list(importer(blog, error_status=True))
                    reported = False
                except ValueError:
                    reported = True
                except Exception as e:  # noqa: BLE001
                    reported = True
                    stats.count('corrupted_other_exception:'
                                + type(e).__name__)
                if not reported:
                    out.append(V(ID, 'uninterpretable_log_not_reported',
                                 f'{site}:{how}',
                                 f'imported silently as {got[0].actions}'))
                    return out
                with warnings.catch_warnings(record=True) as w:
                    warnings.simplefilter('always')
                    try:
                        got = list(importer(blog))
                    except Exception:  # noqa: BLE001
                        got = []
                        w = [1]
                if got or not w:
                    out.append(V(ID, 'uninterpretable_log_not_reported',
                                 f'{site}:{how}:warning',
                                 f'{len(got)} histories, {len(w)} warnings'))
                    return out
    flags = set()
    raises_in_round = 0
    for e in rec['events']:
        if e['t'] == 'board':
            raises_in_round = 0
        if e['t'] in ('bet', 'raise'):
            raises_in_round += 1
            if raises_in_round >= 2:
                flags.add('raise_over_raise')
        if e['t'] == 'call' and e.get('allin'):
            flags.add('all_in_call')
        if e['t'] == 'show':
            flags.add('showdown')
        if e['t'] == 'uncalled':
            flags.add('uncalled_return')
    for f in flags:
        stats.count('class:' + f)
    nontrivial = bool(flags & {'raise_over_raise', 'all_in_call',
                               'showdown'})
    if nontrivial:
        stats.count('nontrivial')
        stats.mark_nontrivial(log)
    stats.sample(dict(site=site, log=log[:1800]), nontrivial)
    return out


def demonstrate_known(k):
    """True when the listed finding still reproduces on the current tree."""
    if k.get('key') != 'screen_name_starts_with_calls_or_checks':
        return False
    log = (
        "Full Tilt Poker Game #1234567: Table Alpha (9 max) - $1/$2 - No"
        " Limit Hold'em - 12:34:56 ET - 2010/01/02\n"
        "Seat 1: Alice ($200)\nSeat 2: Bob ($200)\n"
        "Seat 3: callstation ($200)\n"
        "Alice posts the small blind of $1\nBob posts the big blind of $2\n"
        "The button is in seat #3\n*** HOLE CARDS ***\n"
        "callstation folds\nAlice folds\n"
        "Uncalled bet of $1 returned to Bob\nBob mucks\n"
        "Bob wins the pot ($2)\n*** SUMMARY ***\n\n\n\n"
    )
    with warnings.catch_warnings():
        warnings.simplefilter('ignore')
        try:
            ok = list(HandHistory.from_full_tilt_poker(
                log.replace('callstation', 'Carol'), error_status=True))
            if len(ok) != 1:
                return False
        except Exception:  # noqa: BLE001
            return False
        try:
            list(HandHistory.from_full_tilt_poker(log, error_status=True))
        except ValueError:
            return True
        except Exception:  # noqa: BLE001
            return False
    return False

