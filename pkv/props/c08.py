"""C08 - query, verifier and operation agree; a refused operation changes
nothing.

At quiescent states of generated histories every one of the sixteen
operations is probed with valid, invalid and boundary arguments of the
documented types.  Oracle per probe: the query returns a bool and never
raises; query and verifier leave the state unchanged; the verifier raises
exactly when the query says no; the operation (on a deep copy when the query
says yes, in place when it says no) succeeds exactly when the query says yes;
a refusal is a ValueError (or UserWarning in the strict regime) and leaves the
state as it was; a success with an explicit player index logs that index.
"""
from __future__ import annotations

import copy
import dataclasses
import warnings
from collections import deque

from hypothesis import strategies as st

from .. import gen
from ..engine import (
    CAN,
    Hooks,
    KINDS,
    NOT_ENOUGH_CARDS,
    VERIFY,
    describe_ops,
    exc_key,
    is_engine_exception,
    run_case,
)
from ..runner import V

from pokerkit import Automation, Card, Mode, Pot

ID = 'C08'
RULE = (
    'cases = (config, tape, probe tape); at probe-chosen quiescent states'
    ' (all states when the probe tape is exhausted, incl. the terminal one)'
    ' each of the 16 operations is probed with generated arguments: default,'
    ' every player index (right and wrong player), wrong phase, amounts'
    ' below/at/between/above the bounds, counts 0/negative/too many, foreign,'
    ' unknown and too many cards, partial shows, True/False/None; both'
    ' warning regimes and modes. Oracle: query is a bool and never raises;'
    ' query/verifier do not change the state; verifier raises <=> query is'
    ' False; operation succeeds <=> query True; refusal = ValueError (or'
    ' UserWarning when warnings are errors) and state unchanged; explicit'
    ' index = index in the logged record. Non-trivial probe = refused, or'
    ' accepted with a non-default argument; distinct = distinct'
    ' (state fingerprint, operation, arguments).'
)
ASSUMPTIONS = [
    'arguments stay within the documented types; player indices within'
    ' 0..n-1',
    'deck-size precondition: a cascade running out of cards is discarded',
]

_SKIP = ('divmod', 'rake')


_FIELDS = None


def _freeze(v):
    if isinstance(v, (list, tuple, deque)):
        return tuple(
            _freeze(x) if isinstance(x, (list, deque, set, Pot)) else x
            for x in v
        )
    if isinstance(v, (set, frozenset)):
        return frozenset(v)
    if isinstance(v, Pot):
        return (v.raked_amount, v.unraked_amount, v.player_indices)
    return v


def fingerprint(state):
    """A cheap structural copy of every dataclass field (mutable containers
    frozen one or two levels deep, which is as deep as the state nests)."""
    global _FIELDS
    if _FIELDS is None:
        _FIELDS = tuple(f.name for f in dataclasses.fields(state)
                        if f.name not in _SKIP)
    return tuple(_freeze(getattr(state, n)) for n in _FIELDS)


def fp_diff(before, state):
    now = fingerprint(state)
    return [n for n, a, b in zip(_FIELDS, before, now) if a != b]


def _amounts(s, unit):
    vals = [None, 0 * unit, -unit]
    lo = s.min_completion_betting_or_raising_to_amount
    hi = s.max_completion_betting_or_raising_to_amount
    pot = s.pot_completion_betting_or_raising_to_amount
    if lo is not None:
        vals += [lo - unit, lo, lo + unit, hi - unit, hi, hi + unit,
                 pot - unit, pot, pot + unit]
        if hi != float('inf'):
            span = int((hi - lo) / unit) if hi > lo else 0
            vals.append(lo + (span // 2) * unit)
        else:
            # an unknown (infinite) stack: some amounts far above the rest
            vals += [lo + 1000 * unit, lo + 10 ** 9 * unit]
        i = s.actor_index
        if i is not None:
            vals += [s.stacks[i] + s.bets[i], s.stacks[i] + s.bets[i] + unit]
    else:
        sb = s.streets[0].min_completion_betting_or_raising_amount
        vals += [sb, 2 * sb, max(s.stacks) + unit]
    seen = []
    for v in vals:
        if v not in seen:
            seen.append(v)
    return [(v,) if v is not None else () for v in seen]


def candidates(s, kind, unit):
    n = s.player_count
    idx = list(range(n))
    if kind in ('post_ante', 'post_blind_or_straddle', 'kill_hand',
                'pull_chips'):
        return [()] + [(i,) for i in idx]
    if kind in ('collect_bets', 'fold', 'check_or_call', 'post_bring_in',
                'push_chips'):
        return [()]
    deck = list(s.deck_cards)
    in_play = [c for c in s.cards_in_play]
    some = deck[:1]
    foreign = in_play[:1]
    if kind == 'burn_card':
        out = [()]
        if some:
            out.append((some[0],))
            out.append((tuple(deck[:2]),))
        if foreign:
            out.append((foreign[0],))
        out.append(('??',))
        out.append(('',))
        out += [(t,) for t in MALFORMED]
        return out
    if kind == 'deal_hole':
        out = [(), (0,), (1,), (2,), (-3,), (8,)]
        if deck:
            out.append((tuple(deck[:1]),))
            out.append((tuple(deck[:3]),))
            out.append((tuple(deck[:1]) * 2,))
        j = s.hole_dealee_index
        if j is not None and not s.hole_dealing_statuses[j][0] and \
                Automation.HOLE_CARDS_SHOWING_OR_MUCKING not in s.automations:
            # unknown cards only face down, and only where the players table
            # their hands themselves: an automated all-in showdown cannot
            # table '??' (stated domain: showdown hands known), and the deal
            # that completes the street would fail in that cascade
            out.append(('??',))
        for i in idx:
            out.append((None, i))
            out.append((1, i))
        if foreign:
            out.append((tuple(foreign),))
        out += [(t,) for t in MALFORMED]
        return out
    if kind == 'deal_board':
        out = [(), (0,), (1,), (3,), (4,), (-3,)]
        if len(deck) >= 3:
            out.append((tuple(deck[:1]),))
            out.append((tuple(deck[:3]),))
            out.append((tuple(deck[:4]),))
            out.append((tuple(deck[:1]) * 3,))
            out.append((tuple(deck[:2]) + tuple(deck[:1]),))
        if foreign:
            out.append((tuple(foreign),))
        out += [(t,) for t in MALFORMED]
        return out
    if kind == 'stand_pat_or_discard':
        out = [()]
        i = s.stander_pat_or_discarder_index
        if i is not None:
            hole = [c for c in s.hole_cards[i] if c]
            out.append((tuple(hole[:1]),))
            out.append((tuple(hole),))
            out.append((tuple(hole[1:3]),))
            if hole:
                # the same held card named twice (not a sub-multiset)
                out.append((tuple(hole[:1]) * 2,))
                out.append((tuple(hole[:2]) + tuple(hole[:1]),))
        if deck:
            out.append((tuple(deck[:1]),))
        others = [c for j in idx if j != i for c in s.hole_cards[j] if c]
        if others:
            out.append((tuple(others[:1]),))
        out.append(('??',))
        out += [(t,) for t in MALFORMED]
        return out
    if kind == 'complete_bet_or_raise_to':
        return _amounts(s, unit)
    if kind == 'select_runout_count':
        out = [(), (0,), (-3,), (1,), (2,)]
        for i in idx:
            out += [(None, i), (2, i), (0, i), (1, i)]
        return out
    if kind == 'show_or_muck_hole_cards':
        out = [(), (True,), (False,)]
        for i in idx:
            hole = tuple(s.hole_cards[i])
            out += [(None, i), (True, i), (False, i)]
            if hole:
                out.append((hole, i))
                out.append((hole[:1], i))
                out.append((hole[:1] * len(hole), i))
                known = tuple(c for c in hole if c)
                if known and len(known) != len(hole):
                    out.append((known, i))
                if deck:
                    out.append((hole + tuple(deck[:1]), i))
                    out.append(((deck[0],) + hole[1:], i))
        out += [(t,) for t in MALFORMED[:3]]
        j = s.showdown_index
        if j is not None and s.hole_cards[j]:
            hole = tuple(s.hole_cards[j])
            out.append((hole,))
            out.append((hole[:1],))
        return out
    raise AssertionError(kind)


ALLOWED_REFUSALS = (ValueError, UserWarning)

# card texts that are not cards: blanks in odd places, a dangling character,
# letters that are no rank/suit (all refused with ValueError, never accepted,
# never another exception)
MALFORMED = ('A s', 'AsK sQs', 'A sKs', 'A', 'Xx', 'AsK', '1s', 'sA')

# kind -> per-player attributes that may change, and only at the named index
_FOOTPRINT = {
    'post_ante': ('ante_posting_statuses', 'bets', 'stacks', 'payoffs'),
    'post_blind_or_straddle': ('blind_or_straddle_posting_statuses', 'bets',
                               'stacks', 'payoffs'),
    'deal_hole': ('hole_dealing_statuses', 'hole_cards',
                  'hole_card_statuses'),
    'select_runout_count': ('runout_count_selector_statuses',),
    'show_or_muck_hole_cards': ('hole_cards', 'hole_card_statuses',
                                'statuses'),
    'kill_hand': ('hand_killing_statuses', 'statuses', 'hole_cards',
                  'hole_card_statuses'),
    'pull_chips': ('bets', 'stacks', 'payoffs'),
}


def footprint(before, after, kind, pi):
    """None, or a description of per-player state that changed at another
    index than ``pi`` (or a pending queue that lost the wrong player)."""
    for name in _FOOTPRINT.get(kind, ()):
        a, b = getattr(before, name), getattr(after, name)
        if name.endswith('_statuses') and name != 'hole_card_statuses' \
                and not any(a[j] for j in range(before.player_count)
                            if j != pi):
            # nobody else was pending: the phase may have ended with this
            # operation and the next one re-initialised the flags
            continue
        for i in range(before.player_count):
            if i != pi and _freeze(a[i]) != _freeze(b[i]):
                return (f'{name}[{i}] changed from {a[i]!r} to {b[i]!r}'
                        f' although the operation names player {pi}')
    if kind == 'show_or_muck_hole_cards' and before.street is not None:
        want = [i for i in before.showdown_indices if i != pi]
        got = list(after.showdown_indices)
        if after.status and after.street_index == before.street_index and \
                sorted(got) != sorted(want) and got:
            return (f'players still to show were {list(before.showdown_indices)},'
                    f' player {pi} showed/mucked, now {got}')
    queues = {
        'post_ante': 'ante_posting_statuses',
        'post_blind_or_straddle': 'blind_or_straddle_posting_statuses',
        'select_runout_count': 'runout_count_selector_statuses',
        'kill_hand': 'hand_killing_statuses',
    }
    q = queues.get(kind)
    if q and getattr(before, q)[pi] and getattr(after, q)[pi]:
        return f'{q}[{pi}] is still pending after the operation'
    return None


class Prober(Hooks):
    def __init__(self, cfg, probe, stats, every):
        self.cfg = cfg
        self.probe = list(probe)
        self.pos = 0
        self.stats = stats
        self.viol = []
        self.every = every
        self.nprobes = 0
        self.unit = None
        self.strict = bool(cfg.get('strict'))
        self.stop = False

    def _next(self):
        v = self.probe[self.pos] if self.pos < len(self.probe) else 0
        self.pos += 1
        return v

    def quiescent(self, it):
        if self.viol:
            return
        p = self._next()
        if not self.every and p % 4 != 0 and self.pos <= len(self.probe):
            return
        s = it.state
        if self.unit is None:
            from ..engine import chip_unit
            self.unit = chip_unit(self.cfg)
        rot = p // 3
        self.cur_fp = fingerprint(s)
        for kind in KINDS:
            cands = candidates(s, kind, self.unit)
            if self.every:
                chosen = cands
            else:
                k = 3 if len(cands) > 3 else len(cands)
                chosen = [cands[(rot + j * 5) % len(cands)]
                          for j in range(k)]
                # always the default
                if () not in chosen:
                    chosen[0] = ()
            done = set()
            for args in chosen:
                key = repr(args)
                if key in done:
                    continue
                done.add(key)
                self.probe_one(s, kind, args)
                if self.viol:
                    return

    def _v(self, kind, key, msg):
        self.viol.append(V(ID, kind, key, msg))

    def probe_one(self, s, kind, args):
        self.nprobes += 1
        desc = f'{kind}{args!r} after {len(s.operations)} operations'
        before = self.cur_fp
        # query
        try:
            q = getattr(s, CAN[kind])(*args)
        except Exception as e:  # noqa: BLE001
            if not is_engine_exception(e):
                raise
            self._v('query_raised', f'{kind}:{exc_key(e)}',
                    f'{CAN[kind]}{args!r} raised {e!r} ({desc})')
            return
        if not isinstance(q, bool):
            self._v('query_not_bool', kind, f'{CAN[kind]}{args!r} -> {q!r}')
            return
        nops0 = len(s.operations)
        # verifier
        try:
            getattr(s, VERIFY[kind])(*args)
            vok = True
            verr = None
        except ALLOWED_REFUSALS as e:
            vok = False
            verr = e
        except Exception as e:  # noqa: BLE001
            if not is_engine_exception(e):
                raise
            self._v('verifier_wrong_exception', f'{kind}:{exc_key(e)}',
                    f'{VERIFY[kind]}{args!r} raised {e!r} ({desc})')
            return
        if fingerprint(s) != before:
            # attribute the change: re-run the query alone on a copy
            c = copy.deepcopy(s)
            b2 = fingerprint(c)
            try:
                getattr(c, CAN[kind])(*args)
            except Exception:  # noqa: BLE001
                pass
            who = 'query' if fingerprint(c) != b2 else 'verifier'
            self._v(f'{who}_changed_state', kind,
                    f'{CAN[kind] if who == "query" else VERIFY[kind]}{args!r}'
                    f' changed {fp_diff(before, s)} ({desc})')
            return
        if vok != q:
            self._v('query_verifier_disagree', kind,
                    f'{CAN[kind]}{args!r}={q} but {VERIFY[kind]} '
                    f'{"passed" if vok else "raised " + repr(verr)} ({desc})')
            return
        if isinstance(verr, UserWarning) and not self.strict:
            self._v('warning_as_error_in_permissive_regime', kind,
                    f'{VERIFY[kind]}{args!r} raised {verr!r}')
            return
        # operation
        target = copy.deepcopy(s) if q else s
        nops = len(target.operations)
        # every operation takes an optional commentary, any text (a note
        # pasted from a text box has line breaks); it is no reason to refuse
        kw = {}
        if self.nprobes % 4 == 0:
            kw = {'commentary': 'first line\nsecond line\ttab "quoted"'}
            self.stats.count('probes_with_multi_line_commentary')
        try:
            r = getattr(target, kind)(*args, **kw)
            ok = True
            err = None
        except ALLOWED_REFUSALS as e:
            ok = False
            err = e
        except Exception as e:  # noqa: BLE001
            if not is_engine_exception(e):
                raise
            self._v('operation_wrong_exception', f'{kind}:{exc_key(e)}',
                    f'{kind}{args!r} raised {type(e).__name__}: {e}'
                    f' (query said {q}; {desc})')
            return
        if not ok and q:
            if NOT_ENOUGH_CARDS in str(err):
                self.stats.count('discard:deck_too_small_in_cascade')
                return
            self._v('query_operation_disagree', kind,
                    f'{CAN[kind]}{args!r}=True but the operation was refused:'
                    f' {err!r} ({desc})')
            return
        if ok and not q:
            self.stop = True
            self._v('query_operation_disagree', kind,
                    f'{CAN[kind]}{args!r}=False but the operation succeeded'
                    f' ({desc})')
            return
        if not ok:
            if isinstance(err, UserWarning) and not self.strict:
                self._v('warning_as_error_in_permissive_regime', kind,
                        f'{kind}{args!r} raised {err!r}')
                return
            if fingerprint(target) != before:
                self._v('refused_operation_changed_state', kind,
                        f'{kind}{args!r} refused ({err!r}) but changed'
                        f' {fp_diff(before, target)} ({desc})')
                return
            self.stats.count('probe:refused')
            self.stats.mark_nontrivial((self.cfg['deck_seed'], len(s.operations),
                                        repr(s.operations[-1:]), kind,
                                        repr(args)))
            return
        # success on the copy
        if len(target.operations) <= nops:
            self._v('no_operation_logged', kind, f'{kind}{args!r} ({desc})')
            return
        rec = target.operations[nops]
        if rec is not r and rec != r:
            self._v('returned_record_not_logged', kind,
                    f'{kind}{args!r} returned {r!r}, logged {rec!r}')
            return
        pi = None
        if kind in ('post_ante', 'post_blind_or_straddle', 'kill_hand',
                    'pull_chips') and args:
            pi = args[0]
        elif kind in ('deal_hole', 'select_runout_count',
                      'show_or_muck_hole_cards') and len(args) == 2:
            pi = args[1]
        if pi is not None:
            if getattr(rec, 'player_index', None) != pi:
                self._v('explicit_index_not_applied', kind,
                        f'{kind}{args!r} logged {rec!r} ({desc})')
                return
        if pi is not None and len(target.operations) == nops + 1:
            # no automation cascade followed: the operation's footprint on
            # the per-player bookkeeping must be at index pi and nowhere else
            bad = footprint(s, target, kind, pi)
            if bad:
                self._v('explicit_index_wrong_footprint', kind,
                        f'{kind}{args!r}: {bad} ({desc})')
                return
        if kind == 'select_runout_count':
            want = args[0] if args else None
            if rec.runout_count != want:
                self._v('argument_not_applied', kind,
                        f'{kind}{args!r} logged {rec!r}')
                return
        if kind == 'complete_bet_or_raise_to' and args:
            if rec.amount != args[0]:
                self._v('argument_not_applied', kind,
                        f'{kind}{args!r} logged {rec!r}')
                return
        if fingerprint(s) != before:
            self._v('copy_not_independent', kind,
                    f'{kind}{args!r} on a deep copy changed the original:'
                    f' {fp_diff(before, s)}')
            return
        self.stats.count('probe:accepted')
        if args:
            self.stats.mark_nontrivial((self.cfg['deck_seed'], len(s.operations),
                                        repr(s.operations[-1:]), kind,
                                        repr(args)))


@st.composite
def c08_case(draw, tier):
    case = draw(gen.cases(tape_size=80, unknown=True))
    case['probe'] = draw(st.lists(st.integers(0, 2 ** 16 - 1),
                                  min_size=0, max_size=80))
    if case['config'].get('unknown'):
        # unknown hole cards must be tabled explicitly (C07's stated domain:
        # hands reaching a showdown are known), so showdown is not automated
        case['config']['autos'] &= ~(1 << 7)
    return case


# coverage-guided campaign (pkv/fuzz.py): same strategy and oracle driven by
# libFuzzer through Hypothesis' fuzz_one_input; pokerkit instrumented
FUZZ = dict(
    quick=dict(procs=8, runs=150, wall=60, pool=48),
    thorough=dict(procs=16, runs=6000, wall=900),
)


def budget(tier):
    if tier == 'quick':
        return dict(examples=1600, wall=170)
    return dict(examples=40000, wall=1500)


def strategy(tier):
    return c08_case(tier)


def check(case, stats):
    cfg = case['config']
    probe = case.get('probe', [])
    every = bool(case.get('probe_all'))
    if not probe and not every:
        # exhausted probe tape = probe every state but with sampled args
        pass
    h = Prober(cfg, probe, stats, every)
    res = run_case(case, hooks=h)
    stats.count('outcome:' + str(res.outcome))
    stats.count('probes', h.nprobes)
    out = list(h.viol)
    if res.outcome in ('crash', 'hang', 'runaway') and not out:
        out.append(V(ID, 'engine_crash', exc_key(res.exc),
                     f'{type(res.exc).__name__}: {res.exc}'))
    if res.outcome == 'refused' and not out:
        out.append(V(ID, 'query_operation_disagree', 'interpreter_step',
                     f'an operation whose default query said yes was refused:'
                     f' {res.exc!r}; steps'
                     f' {res.interp.steps[-2:] if res.interp else ""}'))
    if res.state is not None:
        stats.count('mode:' + cfg['mode'])
        stats.count('strict:' + str(bool(cfg.get('strict'))))
        stats.sample(dict(config=cfg, probes=h.nprobes,
                          operations=describe_ops(res.state, 40)), True)
    return out
