"""C18 - range notation, equities and ICM values are consistent.

Ranges: an independent enumerator of the documented notation is compared with
``parse_range`` exhaustively over rank pairs x notation forms x rank orders
(``extra``) and on generated multi-part expressions with mixed separators.
Equities: non-negative, sum to one, independent of sampling when all cards
are given, and then equal to an independent split computation and to the
shares the engine itself pays when the same cards are dealt in the matching
game with everybody all-in.  ICM: non-negative, sums to the prize pool,
ordered like the chips, permutation-equivariant, two-player closed form.
"""
from __future__ import annotations

import warnings
from fractions import Fraction
from itertools import combinations, permutations, product

from hypothesis import strategies as st

from .. import refeval
from ..runner import V
from ..engine import is_engine_exception as _is_engine_exception

import pokerkit
from pokerkit import (
    Automation,
    Card,
    Deck,
    RankOrder,
    calculate_equities,
    calculate_icm,
    parse_range,
)

ID = 'C18'
RULE = (
    'exhaustive part: for the standard and short-deck rank orders, every'
    ' ordered pair of ranks x forms {XY, XYs, XYo, XY+, XYs+, XYo+} and every'
    ' dash interval with equal gaps (both writing directions, both rank'
    ' orders inside a hand) x {plain, s, o}, plus unequal-gap intervals (must'
    ' raise ValueError); oracle = independent enumerator (pair 6, suited 4,'
    ' offsuit 12, XY = XYs + XYo, + and - forms = union of members, every'
    ' element two distinct real cards). Generated part: multi-part range'
    ' expressions with mixed separators; fully specified deals for nine'
    ' (game, hand types) tuples (equities vs independent split vs engine'
    ' payoffs with everybody all-in, two sample counts), partially specified'
    ' deals (>= 0, sum 1); ICM vectors (2-6 players). Non-trivial = split'
    ' pot deal, deal where no low qualifies, multi-part range, ICM with'
    ' unequal chips; distinct = distinct inputs.'
)
ASSUMPTIONS = [
    'equities compared within 1e-9; ICM within 1e-9 relative',
]

SUITS = 'cdhs'
# every member of pokerkit.RankOrder (the "+" and "-" forms depend on it)
ORDERS = {
    'STANDARD': '23456789TJQKA',
    'SHORT_DECK_HOLDEM': '6789TJQKA',
    'REGULAR': 'A23456789TJQK',
    'EIGHT_OR_BETTER_LOW': 'A2345678',
    'ROYAL_POKER': 'TJQKA',
    'KUHN_POKER': 'JQK',
}


def combos(ra, rb, form):
    """set of frozensets of (rank, suit)"""
    out = set()
    if ra == rb:
        if form == 's':
            return out
        for s0, s1 in combinations(SUITS, 2):
            out.add(frozenset([(ra, s0), (rb, s1)]))
        return out
    for s0, s1 in product(SUITS, repeat=2):
        if form == 's' and s0 != s1:
            continue
        if form == 'o' and s0 == s1:
            continue
        out.add(frozenset([(ra, s0), (rb, s1)]))
    return out


def expected_plus(ranks, ra, rb, form):
    ia, ib = ranks.index(ra), ranks.index(rb)
    out = set()
    if ia == ib:
        for r in ranks[ia:]:
            out |= combos(r, r, form)
        return out
    lo, hi = min(ia, ib), max(ia, ib)
    for k in range(lo, hi):
        out |= combos(ranks[hi], ranks[k], form)
    return out


def expected_interval(ranks, r0, r1, r2, r3, form):
    i0, i1, i2, i3 = (ranks.index(r) for r in (r0, r1, r2, r3))
    if i1 - i0 != i3 - i2:
        return None
    out = set()
    step = 1 if i2 >= i0 else -1
    for t in range(0, i2 - i0 + step, step):
        out |= combos(ranks[i0 + t], ranks[i1 + t], form)
    return out


def engine_range(text, order):
    rs_ = parse_range(text, rank_order=RankOrder[order])
    out = set()
    for h in rs_:
        out.add(frozenset((str(c.rank.value), str(c.suit.value)) for c in h))
    return out, rs_


def extra(tier, seed, stats):
    viols = []
    n = 0
    nontrivial = 0
    samples = []

    def cmp(text, order, want):
        nonlocal n, nontrivial
        n += 1
        try:
            got, raw = engine_range(text, order)
        except ValueError as e:
            if want is None:
                return
            viols.append(V(ID, 'range', 'refused',
                           f'parse_range({text!r}, {order}) raised {e!r};'
                           f' expected {len(want)} hands'))
            return
        except Exception as e:  # noqa: BLE001
            if not _is_engine_exception(e):
                raise     # harness fault: exit 2
            viols.append(V(ID, 'range', 'exception',
                           f'parse_range({text!r}, {order}) raised {e!r}'))
            return
        if want is None:
            viols.append(V(ID, 'range', 'accepted_invalid',
                           f'parse_range({text!r}) = {len(got)} hands but'
                           ' the two ends are not shifted versions of each'
                           ' other'))
            return
        for h in raw:
            if len(h) != 2 or not all(h):
                viols.append(V(ID, 'range', 'element',
                               f'{text!r}: element {h}'))
                return
        if got != want:
            viols.append(V(ID, 'range',
                           'interval' if '-' in text else 'plus'
                           if '+' in text else 'basic',
                           f'parse_range({text!r}, {order}): {len(got)}'
                           f' hands, expected {len(want)}; missing'
                           f' {sorted(map(sorted, want - got))[:3]} extra'
                           f' {sorted(map(sorted, got - want))[:3]}'))
        elif len(want) > 16:
            nontrivial += 1
            if len(samples) < 3:
                samples.append(dict(range=text, order=order,
                                    hands=len(want)))

    for order, ranks in ORDERS.items():
        for ra in ranks:
            for rb in ranks:
                for form in ('', 's', 'o'):
                    cmp(f'{ra}{rb}{form}', order, combos(ra, rb, form))
                    cmp(f'{ra}{rb}{form}+', order,
                        expected_plus(ranks, ra, rb, form))
                    for rc in ranks:
                        # equal-gap partner
                        i0, i1, i2 = (ranks.index(x) for x in (ra, rb, rc))
                        i3 = i2 + (i1 - i0)
                        if 0 <= i3 < len(ranks):
                            rd = ranks[i3]
                            cmp(f'{ra}{rb}{form}-{rc}{rd}{form}', order,
                                expected_interval(ranks, ra, rb, rc, rd,
                                                  form))
                        # an unequal-gap partner
                        j3 = (i3 + 1) % len(ranks)
                        if j3 - i2 != i1 - i0:
                            cmp(f'{ra}{rb}{form}-{rc}{ranks[j3]}{form}',
                                order, None)
    # XY is the disjoint union of XYs and XYo; counts 6 / 4 / 12
    for ra in ORDERS['STANDARD']:
        for rb in ORDERS['STANDARD']:
            a, _ = engine_range(f'{ra}{rb}', 'STANDARD')
            s_, _ = engine_range(f'{ra}{rb}s', 'STANDARD')
            o, _ = engine_range(f'{ra}{rb}o', 'STANDARD')
            n += 1
            if ra == rb:
                ok = len(a) == 6 and len(s_) == 0 and o == a
            else:
                ok = len(s_) == 4 and len(o) == 12 and not (s_ & o) \
                    and (s_ | o) == a
            if not ok:
                viols.append(V(ID, 'range', 'counts',
                               f'{ra}{rb}: {len(a)}/{len(s_)}/{len(o)}'))
    uniq = {}
    for v in viols:
        uniq.setdefault((v.kind, v.key), v)
    return list(uniq.values()), dict(
        evaluations=n, distinct_nontrivial=nontrivial, samples=samples,
        exhaustive=True, range_expressions=n)


# ---- generated part --------------------------------------------------------

GAMESPECS = {
    # name: (deck, hand types, hole count, board count, game class)
    'holdem': ('STANDARD', ['StandardHighHand'], 2, 5,
               'NoLimitTexasHoldem'),
    'shortdeck': ('SHORT_DECK_HOLDEM', ['ShortDeckHoldemHand'], 2, 5,
                  'NoLimitShortDeckHoldem'),
    'omaha': ('STANDARD', ['OmahaHoldemHand'], 4, 5, 'PotLimitOmahaHoldem'),
    'omaha8': ('STANDARD', ['OmahaHoldemHand', 'OmahaEightOrBetterLowHand'],
               4, 5, 'FixedLimitOmahaHoldemHighLowSplitEightOrBetter'),
    'stud': ('STANDARD', ['StandardHighHand'], 7, 0,
             'FixedLimitSevenCardStud'),
    'stud8': ('STANDARD', ['StandardHighHand', 'EightOrBetterLowHand'], 7, 0,
              'FixedLimitSevenCardStudHighLowSplitEightOrBetter'),
    'razz': ('REGULAR', ['RegularLowHand'], 7, 0, 'FixedLimitRazz'),
    'deuce7': ('STANDARD', ['StandardLowHand'], 5, 0,
               'NoLimitDeuceToSevenLowballSingleDraw'),
    'badugi': ('REGULAR', ['BadugiHand'], 4, 0, 'FixedLimitBadugi'),
}


@st.composite
def deal_case(draw):
    name = draw(st.sampled_from(sorted(GAMESPECS)))
    deckname, hts, nh, nb, _ = GAMESPECS[name]
    deck = [repr(c) for c in Deck[deckname]]
    maxp = min(6, (len(deck) - nb) // nh)
    n = draw(st.integers(2, max(2, min(maxp, 4))))
    style = draw(st.integers(0, 3))
    pool = deck
    if style == 1 and deckname != 'SHORT_DECK_HOLDEM':
        lows = [c for c in deck if c[0] in 'A2345678']
        pool = lows + draw(st.lists(st.sampled_from(deck), max_size=10))
        pool = list(dict.fromkeys(pool))
    elif style == 2:
        keep = draw(st.lists(st.sampled_from(sorted({c[0] for c in deck})),
                             min_size=4, max_size=6, unique=True))
        pool = [c for c in deck if c[0] in keep]
    need = n * nh + nb
    if len(pool) < need:
        pool = deck
    cards = draw(st.lists(st.sampled_from(pool), min_size=need,
                          max_size=need, unique=True))
    full = draw(st.integers(0, 3)) != 0
    holes = [cards[i * nh:(i + 1) * nh] for i in range(n)]
    board = cards[n * nh:]
    if not full:
        # partially specified: drop some cards
        holes = [h[:draw(st.integers(0, nh))] for h in holes]
        board = board[:draw(st.integers(0, nb))]
    return dict(kind='deal', game=name, holes=holes, board=board, full=full,
                samples=draw(st.sampled_from([3, 8])))


@st.composite
def range_deal_case(draw):
    """Hold'em: a multi-combination range against fixed hands on a complete
    board that may share cards with some combinations of the range."""
    ranks = ORDERS['STANDARD']
    ra = draw(st.sampled_from(ranks))
    rb = draw(st.sampled_from(ranks))
    form = draw(st.sampled_from(['', 's', 'o', 's']))
    if ra == rb and form == 's':
        form = ''
    hero = sorted(sorted(h) for h in combos(ra, rb, form))
    deck = [r + su for r in ranks for su in SUITS]
    hero_cards = sorted({c[0] + c[1] for h in hero for c in h})
    nboard_from_range = draw(st.integers(0, 2))
    board = draw(st.lists(st.sampled_from(hero_cards),
                          min_size=nboard_from_range,
                          max_size=nboard_from_range, unique=True))
    rest = [c for c in deck if c not in board]
    more = draw(st.lists(st.sampled_from(rest), min_size=5 - len(board) + 2,
                         max_size=5 - len(board) + 2, unique=True))
    board = board + more[:5 - len(board)]
    villain = more[-2:]
    return dict(kind='range_deal', range=f'{ra}{rb}{form}', villain=villain,
                board=board, samples=draw(st.sampled_from([4, 12])))


@st.composite
def icm_case(draw):
    n = draw(st.integers(2, 6))
    chips = draw(st.lists(st.integers(1, 10 ** 6), min_size=n, max_size=n))
    # a payout table may be longer than the list of players still in (the
    # places below the last of them are already taken)
    k = draw(st.integers(1, n + 2))
    pay = sorted(draw(st.lists(st.integers(0, 10 ** 5), min_size=k,
                               max_size=k)), reverse=True)
    return dict(kind='icm', chips=chips, payouts=pay,
                forms=[draw(st.sampled_from(['list', 'tuple', 'iter', 'gen']))
                       for _ in range(2)])


@st.composite
def range_case(draw):
    ranks = ORDERS['STANDARD']
    parts = []
    for _ in range(draw(st.integers(1, 4))):
        ra = draw(st.sampled_from(ranks))
        rb = draw(st.sampled_from(ranks))
        form = draw(st.sampled_from(['', 's', 'o']))
        how = draw(st.integers(0, 3))
        if how == 0:
            parts.append((f'{ra}{rb}{form}', ('c', ra, rb, form)))
        elif how == 1:
            parts.append((f'{ra}{rb}{form}+', ('p', ra, rb, form)))
        elif how == 2:
            i0, i1 = ranks.index(ra), ranks.index(rb)
            i2 = draw(st.integers(max(0, -(i1 - i0)),
                                  min(12, 12 - (i1 - i0))))
            rc, rd = ranks[i2], ranks[i2 + i1 - i0]
            parts.append((f'{ra}{rb}{form}-{rc}{rd}{form}',
                          ('i', ra, rb, rc, rd, form)))
        else:
            c1, c2 = draw(st.lists(st.sampled_from(
                [r + s for r in ranks for s in SUITS]), min_size=2,
                max_size=2, unique=True))
            parts.append((c1 + c2, ('x', c1, c2)))
    seps = [draw(st.sampled_from([' ', ',', ';', ', ', '  ', ' ; ']))
            for _ in parts]
    text = ''.join(p[0] + s for p, s in zip(parts, seps)).strip()
    while text and text[-1] in ',; ':
        text = text[:-1]
    return dict(kind='range', text=text, parts=[p[1] for p in parts])


def budget(tier):
    if tier == 'quick':
        return dict(examples=8000, wall=100)
    return dict(examples=120000, wall=1500)


@st.composite
def partial_deal_case(draw):
    """Deals with cards still to come (unknown opponents, incomplete
    boards): every simulated deal must consist of distinct real cards."""
    n = draw(st.integers(2, 4))
    deck = [r + s for r in ORDERS['STANDARD'] for s in SUITS]
    nb = draw(st.sampled_from([0, 0, 3, 4]))
    known = draw(st.integers(0, n))
    cards = draw(st.lists(st.sampled_from(deck), min_size=2 * known + nb,
                          max_size=2 * known + nb, unique=True))
    holes = [cards[2 * i:2 * i + 2] for i in range(known)] + \
        [[] for _ in range(n - known)]
    return dict(kind='partial_deal', holes=draw(st.permutations(holes)),
                board=cards[2 * known:], samples=draw(st.integers(5, 40)),
                seed=draw(st.integers(0, 10 ** 6)))


@st.composite
def range_text_case(draw):
    """Arbitrary text over the notation's alphabet: whatever is accepted
    denotes sets of two distinct real cards; whatever is not is refused with
    ValueError."""
    # ('?' is left out: the parser takes it for a rank and yields cards of
    # unknown rank; that spelling is not part of the documented notation the
    # property speaks about, so it is not judged - DESIGN 9.2)
    text = draw(st.text(alphabet='AKQJT98765432akqtcdhs+-so ,;\t10xX',
                        max_size=14))
    order = draw(st.sampled_from(sorted(ORDERS)))
    return dict(kind='range_text', text=text, order=order)


def strategy(tier):
    return st.one_of(deal_case(), deal_case(), icm_case(), range_case(),
                     range_deal_case(), range_text_case(),
                     partial_deal_case())


def ref_split(hts, holes, board):
    n = len(holes)
    shares = [Fraction(0)] * n
    quals = []
    for ht in hts:
        keys = [refeval.best(ht, [(c[0], c[1]) for c in h],
                             [(c[0], c[1]) for c in board]) for h in holes]
        if any(k is not None for k in keys):
            quals.append(keys)
    for keys in quals:
        top = max(k for k in keys if k is not None)
        winners = [i for i, k in enumerate(keys) if k == top]
        for i in winners:
            shares[i] += Fraction(1, len(quals) * len(winners))
    return shares, len(quals)


def engine_shares(spec, holes, board):
    """Deal the same cards in the matching game, everybody all-in for one
    ante; return each player's share of the pot."""
    deckname, hts, nh, nb, clsname = spec
    cls = getattr(pokerkit, clsname)
    n = len(holes)
    A = Automation
    autos = (A.ANTE_POSTING, A.BET_COLLECTION, A.BLIND_OR_STRADDLE_POSTING,
             A.RUNOUT_COUNT_SELECTION, A.HOLE_CARDS_SHOWING_OR_MUCKING,
             A.HAND_KILLING, A.CHIPS_PUSHING, A.CHIPS_PULLING)
    one = Fraction(1)
    import inspect
    params = list(inspect.signature(cls.create_state).parameters)
    if 'bring_in' in params:
        s = cls.create_state(autos, False, one, 0, 2, 4, one, n)
    elif 'big_bet' in params:
        s = cls.create_state(autos, False, one, 0, 2, 4, one, n)
    else:
        s = cls.create_state(autos, False, one, 0, 2, one, n)
    given = [list(h) for h in holes]
    brd = list(board)
    guard = 0
    while s.status:
        guard += 1
        if guard > 500:
            raise RuntimeError('no progress')
        if s.can_burn_card():
            s.burn_card('??')
        elif s.can_deal_hole():
            i = s.hole_dealee_index
            k = len(s.hole_dealing_statuses[i])
            cs = given[i][:k]
            given[i] = given[i][k:]
            s.deal_hole(''.join(cs), i)
        elif s.can_deal_board():
            k = s.board_dealing_count
            cs = brd[:k]
            brd = brd[k:]
            s.deal_board(''.join(cs))
        elif s.can_stand_pat_or_discard():
            s.stand_pat_or_discard()
        else:
            raise RuntimeError(f'unexpected decision in {clsname}')
    return [(p + one) / n for p in s.payoffs]


def check(case, stats):
    kind = case['kind']
    out = []
    if kind == 'partial_deal':
        import random as _random
        holes, board = case['holes'], case['board']
        n = len(holes)
        seen = []

        class Spy(pokerkit.StandardHighHand):
            """Records what each simulated player is evaluated on."""

            @classmethod
            def from_game_or_none(cls, hole_cards, board_cards=()):
                h = tuple(Card.clean(hole_cards))
                b = tuple(Card.clean(board_cards))
                seen.append((h, b))
                return pokerkit.StandardHighHand.from_game_or_none(h, b)

            @classmethod
            def from_game(cls, hole_cards, board_cards=()):
                h = tuple(Card.clean(hole_cards))
                b = tuple(Card.clean(board_cards))
                seen.append((h, b))
                return pokerkit.StandardHighHand.from_game(h, b)

        ranges = [[list(Card.parse(''.join(h)))] for h in holes]
        _random.seed(case['seed'])
        with warnings.catch_warnings():
            warnings.simplefilter('ignore')
            try:
                eq = calculate_equities(
                    ranges, list(Card.parse(''.join(board))), 2, 5,
                    Deck.STANDARD, (Spy,), sample_count=case['samples'])
            except Exception as e:  # noqa: BLE001
                if not _is_engine_exception(e):
                    raise
                return [V(ID, 'equity', 'raised',
                          f'{e!r} for partial deal {holes} {board}')]
        stats.count('kind:partial_deal')
        if any(x < -1e-12 for x in eq) or abs(sum(eq) - 1) > 1e-9:
            return [V(ID, 'equity', 'sum',
                      f'partial deal {holes} {board}: equities {eq}')]
        if len(seen) % n == 0 and seen:
            for g in range(0, len(seen), n):
                group = seen[g:g + n]
                brd = group[0][1]
                cards_ = [c for h, _ in group for c in h] + list(brd)
                if any(b != brd for _, b in group) or len(brd) != 5 or \
                        any(len(h) != 2 for h, _ in group) or \
                        len(set(cards_)) != len(cards_) or \
                        not all(bool(c) for c in cards_):
                    return [V(ID, 'equity', 'simulated_deal_not_distinct',
                              f'partial deal {holes} board {board}: a'
                              f' simulated deal evaluates holes'
                              f' {[h for h, _ in group]} on boards'
                              f' {[b for _, b in group]}')]
            stats.count('simulated_deals_checked', len(seen) // n)
        else:
            stats.count('partial_deal:evaluation_order_not_grouped')
        nt = any(not h for h in holes) or len(board) < 5
        if nt:
            stats.count('nontrivial')
            stats.mark_nontrivial(('partial', tuple(map(tuple, holes)),
                                   tuple(board), case['seed']))
        stats.sample(dict(partial_holes=holes, board=board,
                          equities=list(eq)), nt)
        return []
    if kind == 'range_text':
        text, order = case['text'], case['order']
        stats.count('kind:range_text')
        try:
            got = list(parse_range(text, rank_order=RankOrder[order]))
        except ValueError:
            stats.count('range_text:refused')
            return []
        except Exception as e:  # noqa: BLE001
            if not _is_engine_exception(e):
                raise
            return [V(ID, 'range', 'text_wrong_exception',
                      f'parse_range({text!r}, {order}) raised {e!r}'
                      ' (ValueError expected for text that is no range)')]
        stats.count('range_text:accepted')
        for h in got:
            cs_ = list(h)
            # an accepted text denotes sets of real cards.  How many is not
            # judged here: the parser also takes explicit card lists of any
            # length ('AcKcQc'), and a list naming one card twice ('2c2c')
            # collapses to a smaller set - the exact sets denoted by the rank
            # notation are decided by the range cases
            if not cs_ or not all(bool(c) for c in cs_):
                return [V(ID, 'range', 'text_element',
                          f'parse_range({text!r}, {order}) contains {h!r}:'
                          ' not a set of real cards')]
        if got:
            stats.count('nontrivial')
            stats.mark_nontrivial(('text', text, order))
        stats.sample(dict(range_text=text, order=order, hands=len(got)),
                     bool(got))
        return []
    if kind == 'range':
        ranks = ORDERS['STANDARD']
        want = set()
        for p in case['parts']:
            if p[0] == 'c':
                want |= combos(p[1], p[2], p[3])
            elif p[0] == 'p':
                want |= expected_plus(ranks, p[1], p[2], p[3])
            elif p[0] == 'i':
                want |= expected_interval(ranks, *p[1:5], p[5])
            else:
                want.add(frozenset([(p[1][0], p[1][1]),
                                    (p[2][0], p[2][1])]))
        try:
            got, _ = engine_range(case['text'], 'STANDARD')
        except Exception as e:  # noqa: BLE001
            if not _is_engine_exception(e):
                raise     # harness fault: exit 2
            return [V(ID, 'range', 'multi_part_raised',
                      f'parse_range({case["text"]!r}) raised {e!r}')]
        if got != want:
            out.append(V(ID, 'range', 'multi_part',
                         f'parse_range({case["text"]!r}): {len(got)} hands,'
                         f' expected {len(want)}'))
        # separator invariance
        alt = case['text'].replace(',', ' ').replace(';', ' ')
        got2, _ = engine_range(alt, 'STANDARD')
        if got2 != got:
            out.append(V(ID, 'range', 'separators',
                         f'{case["text"]!r} vs {alt!r}'))
        stats.count('kind:range')
        if len(case['parts']) > 1:
            stats.count('nontrivial')
            stats.mark_nontrivial(case['text'])
        stats.sample(dict(range=case['text'], hands=len(got)),
                     len(case['parts']) > 1)
        return out
    if kind == 'icm':
        chips, pay = case['chips'], case['payouts']

        def _as(v, f):
            # the documented parameter type is Iterable: one-shot iterators
            # and generators are as good as lists
            return {'list': list(v), 'tuple': tuple(v), 'iter': iter(v),
                    'gen': (x for x in v)}[f]
        fp, fc = case.get('forms') or ['list', 'list']
        try:
            icm = calculate_icm(_as(pay, fp), _as(chips, fc))
        except Exception as e:  # noqa: BLE001
            if not _is_engine_exception(e):
                raise     # harness fault: exit 2
            return [V(ID, 'icm', 'raised', f'{e!r} for {pay} {chips}')]
        # the players share the places they can still take
        tot = sum(pay[:len(chips)])
        if len(pay) > len(chips):
            stats.count('class:more_payouts_than_players')
        eps = 1e-9 * max(1.0, tot)
        if len(icm) != len(chips):
            return [V(ID, 'icm', 'length', f'{icm}')]
        if any(x < -eps for x in icm):
            out.append(V(ID, 'icm', 'negative', f'{icm} for {pay} {chips}'))
        if abs(sum(icm) - tot) > eps * 10:
            out.append(V(ID, 'icm', 'sum',
                         f'sum {sum(icm)} != prize pool {tot} for {pay}'
                         f' {chips}'))
        for i in range(len(chips)):
            for j in range(len(chips)):
                if chips[i] >= chips[j] and icm[i] < icm[j] - eps * 10:
                    out.append(V(ID, 'icm', 'order',
                                 f'chips {chips} payouts {pay} icm {icm}'))
                    break
            else:
                continue
            break
        perm = list(reversed(range(len(chips))))
        icm2 = calculate_icm(pay, [chips[k] for k in perm])
        for a, k in enumerate(perm):
            if abs(icm2[a] - icm[k]) > eps * 10:
                out.append(V(ID, 'icm', 'permutation',
                             f'{icm} vs permuted {icm2}'))
                break
        if len(chips) == 2:
            p0 = chips[0] / sum(chips)
            a, b = (pay + [0])[:2]
            w0 = a * p0 + b * (1 - p0)
            if abs(icm[0] - w0) > eps * 10:
                out.append(V(ID, 'icm', 'two_player',
                             f'{icm} expected first {w0}'))
        stats.count('kind:icm')
        nt = len(set(chips)) > 1
        if nt:
            stats.count('nontrivial')
            stats.mark_nontrivial((tuple(chips), tuple(pay)))
        stats.sample(dict(chips=chips, payouts=pay, icm=list(icm)), nt)
        return out
    if kind == 'range_deal':
        board = case['board']
        villain = case['villain']
        want_range = combos(case['range'][0], case['range'][1],
                            case['range'][2:])
        used = set(board) | set(villain)
        valid = [h for h in want_range
                 if not ({c[0] + c[1] for c in h} & used)]
        stats.count('kind:range_deal')
        if not valid:
            stats.count('range_deal:no_valid_combination')
            return []
        splits = []
        for h in valid:
            hole = sorted(c[0] + c[1] for c in h)
            sh, _ = ref_split(['StandardHighHand'], [hole, villain], board)
            splits.append(sh)
        lo = [float(min(sp[i] for sp in splits)) for i in range(2)]
        hi = [float(max(sp[i] for sp in splits)) for i in range(2)]
        with warnings.catch_warnings():
            warnings.simplefilter('ignore')
            try:
                eq = calculate_equities(
                    [parse_range(case['range']),
                     [list(Card.parse(''.join(villain)))]],
                    list(Card.parse(''.join(board))), 2, 5, Deck.STANDARD,
                    [pokerkit.StandardHighHand],
                    sample_count=case['samples'])
            except Exception as e:  # noqa: BLE001
                if not _is_engine_exception(e):
                    raise     # harness fault: exit 2
                return [V(ID, 'equity', 'raised',
                          f'{e!r} for range {case["range"]} vs {villain}'
                          f' on {board}')]
        for i in range(2):
            if not lo[i] - 1e-9 <= eq[i] <= hi[i] + 1e-9:
                out.append(V(ID, 'equity', 'impossible_combination_counted',
                             f'range {case["range"]} vs {villain} on'
                             f' {board}: equities {eq}; over the'
                             f' {len(valid)} combinations that do not clash'
                             f' with the board/other hands player {i}\'s'
                             f' share lies in [{lo[i]}, {hi[i]}]'))
                break
        overlap = len(valid) < len(want_range)
        if overlap:
            stats.count('class:range_overlaps_board')
            stats.count('nontrivial')
            stats.mark_nontrivial((case['range'], tuple(villain),
                                   tuple(board)))
        stats.sample(dict(range=case['range'], villain=villain, board=board,
                          equities=eq), overlap)
        return out
    # deals
    spec = GAMESPECS[case['game']]
    deckname, hts, nh, nb, clsname = spec
    holes, board = case['holes'], case['board']
    hand_types = [getattr(pokerkit, h) for h in hts]
    ranges = [[list(Card.parse(''.join(h)))] for h in holes]
    bcards = list(Card.parse(''.join(board)))
    res = []
    with warnings.catch_warnings():
        warnings.simplefilter('ignore')
        for k in (case['samples'], 1):
            try:
                eq = calculate_equities(ranges, bcards, nh, nb,
                                        Deck[deckname], hand_types,
                                        sample_count=k)
            except Exception as e:  # noqa: BLE001
                if not _is_engine_exception(e):
                    raise     # harness fault: exit 2
                return [V(ID, 'equity', 'raised',
                          f'{e!r} for {case["game"]} {holes} {board}')]
            res.append(eq)
            if any(x < -1e-12 for x in eq):
                out.append(V(ID, 'equity', 'negative', f'{eq}'))
            if abs(sum(eq) - 1) > 1e-9:
                out.append(V(ID, 'equity', 'sum',
                             f'{case["game"]} holes {holes} board {board}:'
                             f' equities {eq} sum to {sum(eq)}'))
            if out:
                return out
    stats.count('kind:deal_' + ('full' if case['full'] else 'partial'))
    nontrivial = False
    if case['full']:
        if any(abs(a - b) > 1e-9 for a, b in zip(res[0], res[1])):
            out.append(V(ID, 'equity', 'depends_on_sampling',
                         f'{res[0]} vs {res[1]}'))
            return out
        shares, nq = ref_split(hts, holes, board)
        if any(abs(float(a) - b) > 1e-9 for a, b in zip(shares, res[0])):
            out.append(V(ID, 'equity', 'split',
                         f'{case["game"]} holes {holes} board {board}:'
                         f' equities {res[0]}, the split is'
                         f' {[str(x) for x in shares]}'))
            return out
        try:
            with warnings.catch_warnings():
                warnings.simplefilter('ignore')
                es = engine_shares(spec, holes, board)
        except RuntimeError:
            raise
        if any(abs(float(a) - b) > 1e-9 for a, b in zip(es, res[0])):
            out.append(V(ID, 'equity', 'engine_payoffs',
                         f'{case["game"]} holes {holes} board {board}:'
                         f' equities {res[0]}, the engine pays'
                         f' {[str(x) for x in es]}'))
            return out
        nontrivial = sum(1 for x in shares if x > 0) > 1 or \
            nq < len(hts)
        if nq < len(hts):
            stats.count('class:no_low_qualifies')
        if sum(1 for x in shares if x > 0) > 1:
            stats.count('class:split_pot')
    if nontrivial:
        stats.count('nontrivial')
        stats.mark_nontrivial((case['game'], tuple(map(tuple, holes)),
                               tuple(board)))
    stats.sample(dict(game=case['game'], holes=holes, board=board,
                      equities=res[0]), nontrivial)
    return out
