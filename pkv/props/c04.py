"""C04 - hand comparison agrees with the rules of poker, for every hand.

Two parts.
(1) ``extra``: exhaustive enumeration, per hand class, of every card subset of
the relevant size(s) of the relevant deck.  Total order is decided without
enumerating pairs: hands are grouped by the engine's ``entry.index``; every
group must map to exactly one reference key, distinct groups to distinct
keys, and the key must be strictly monotonic in the index (increasing for
high types, decreasing for low types).  Then <, == and > agree for *all*
pairs.  Validity: accepted <=> the reference says "is a hand of this type".
(2) Hypothesis pairs through the public comparison operators (the ``low``
flag, ``__eq__``/``__hash__``, labels), wrong sizes, unknown and foreign cards.
"""
from __future__ import annotations

import multiprocessing as mp
from itertools import combinations

from hypothesis import strategies as st

from .. import refeval
from ..runner import V

import pokerkit
from pokerkit import Card, Deck

ID = 'C04'
RULE = (
    'exhaustive part: every k-subset of the relevant deck per hand class'
    ' (all C(52,5) for the seven 52-card five-card classes, C(36,5)'
    ' short-deck, all 0-4-card subsets of 52 for both badugi classes, all'
    ' subsets of the Kuhn deck, plus all 0-3-card subsets as wrong sizes);'
    ' oracle = reference evaluator written from the rules: accepted <=> valid,'
    ' one reference key per engine index, keys strictly monotonic in the index'
    ' (=> <,==,> agree on all pairs). Hypothesis part: pairs of hands per'
    ' class, stratified by category and by near-miss mutation, compared with'
    ' <,<=,==,!=,>=,>, hash and label via the public classes; card sets of'
    ' 0-7 cards incl. unknown/foreign cards for validity. Non-trivial pair ='
    ' different category, or same category decided at kicker position >= 2,'
    ' or a rejected set; distinct = distinct (class, cards) inputs.'
)
ASSUMPTIONS = [
    'card *sets*: duplicated cards are outside the stated domain',
    'the engine order is the integer order of entry.index (checked through'
    ' the public operators on the sampled pairs)',
]

CLASSES = {
    # class name: (deck name, valid sizes enumerated exhaustively)
    'StandardHighHand': ('STANDARD', (5,)),
    'StandardLowHand': ('STANDARD', (5,)),
    'GreekHoldemHand': ('STANDARD', (5,)),
    'OmahaHoldemHand': ('STANDARD', (5,)),
    'EightOrBetterLowHand': ('STANDARD', (5,)),
    'OmahaEightOrBetterLowHand': ('STANDARD', (5,)),
    'RegularLowHand': ('REGULAR', (5,)),
    'ShortDeckHoldemHand': ('SHORT_DECK_HOLDEM', (5,)),
    'BadugiHand': ('REGULAR', (1, 2, 3, 4)),
    'StandardBadugiHand': ('STANDARD', (1, 2, 3, 4)),
    'KuhnPokerHand': ('KUHN_POKER', (1,)),
}
WRONG_SIZES = (0, 1, 2, 3)


WHEEL = 'deuce_to_seven_wheel_is_a_straight'


def _engine(cls, cards):
    """(accepted, index, label, low) through the public class."""
    try:
        h = cls(cards)
    except Exception:  # noqa: BLE001  any exception = rejected
        return None
    e = h.entry
    return e.index, e.label.value


def _enum_task(args):
    cname, size, first = args
    cls = getattr(pokerkit, cname)
    deck = list(Deck[CLASSES[cname][0]])
    pairs = [(str(c.rank.value), str(c.suit.value)) for c in deck]
    n = len(deck)
    idx_key = {}
    problems = []
    count = 0
    valid = 0
    if size == 0:
        combos = [()] if first == 0 else []
    else:
        combos = (
            (first,) + rest
            for rest in combinations(range(first + 1, n), size - 1)
        )
    for combo in combos:
        cards = [deck[i] for i in combo]
        ref = refeval.key_rules(cname, [pairs[i] for i in combo])
        eng = _engine(cls, cards)
        count += 1
        if (eng is None) != (ref is None):
            if len(problems) < 3:
                problems.append(('validity', ''.join(map(repr, cards)),
                                 f'engine accepted={eng is not None}'
                                 f' reference valid={ref is not None}'))
            continue
        if eng is None:
            continue
        valid += 1
        idx, label = eng
        prev = idx_key.get(idx)
        if prev is None:
            idx_key[idx] = (ref, ''.join(map(repr, cards)), label)
        elif prev[0] != ref:
            if len(problems) < 3:
                problems.append(('equal_rank_differs', ''.join(map(repr, cards)),
                                 f'same engine index {idx} as {prev[1]} but'
                                 f' different rank under the rules'))
        want = refeval.category_rules(cname, [pairs[i] for i in combo])
        if want is not None and label != want:
            if cname == 'StandardLowHand' and refeval.is_wheel(
                    [pairs[i] for i in combo]):
                if not any(p[0] == WHEEL for p in problems):
                    problems.append((WHEEL, ''.join(map(repr, cards)),
                                     f'label {label!r}, by the rule book'
                                     f' {want!r}'))
            elif len(problems) < 3:
                problems.append(('label', ''.join(map(repr, cards)),
                                 f'label {label!r} != {want!r}'))
    return cname, size, count, valid, idx_key, problems


def extra(tier, seed, stats):
    viols = []
    tasks = []
    for cname, (deckname, sizes) in CLASSES.items():
        n = len(Deck[deckname])
        for size in sorted(set(sizes) | set(WRONG_SIZES)):
            if size == 0:
                tasks.append((cname, 0, 0))
                continue
            for first in range(n - size + 1):
                tasks.append((cname, size, first))
    # big tasks first
    tasks.sort(key=lambda t: (-t[1], t[2]))
    ctx = mp.get_context('fork')
    with ctx.Pool(16) as pool:
        results = pool.map(_enum_task, tasks, chunksize=4)
    total = 0
    per_class = {}
    merged = {}
    for cname, size, count, valid, idx_key, problems in results:
        total += count
        pc = per_class.setdefault(cname, dict(subsets=0, valid=0))
        pc['subsets'] += count
        pc['valid'] += valid
        for kind, cards, msg in problems:
            viols.append(V(ID, kind, cname, f'{cname}({cards}): {msg}'))
        m = merged.setdefault(cname, {})
        for idx, (ref, cards, label) in idx_key.items():
            prev = m.get(idx)
            if prev is None:
                m[idx] = (ref, cards)
            elif prev[0] != ref:
                viols.append(V(ID, 'equal_rank_differs', cname,
                               f'{cname}: {cards} and {prev[1]} share engine'
                               f' index {idx} but differ under the rules'))
    samples = []
    classes_nt = 0
    for cname, m in merged.items():
        low = getattr(pokerkit, cname).low
        items = sorted(m.items())
        per_class[cname]['distinct_ranks'] = len(items)
        classes_nt += len(items)
        seen_keys = {}
        for idx, (ref, cards) in items:
            if ref in seen_keys:
                viols.append(V(ID, 'unequal_rank_same', cname,
                               f'{cname}: {cards} (index {idx}) and'
                               f' {seen_keys[ref][1]} (index'
                               f' {seen_keys[ref][0]}) are equal under the'
                               ' rules but not for the engine'))
            seen_keys[ref] = (idx, cards)
        if cname == 'StandardLowHand':
            # the wheel is judged on its own (listed finding W1), the rest of
            # the order without it
            from pokerkit import Card as _C
            wheels = [it for it in items if refeval.is_wheel(
                [refeval.rs(c) for c in _C.parse(it[1][1])])]
            items = [it for it in items if it not in wheels]
            for widx, (wkey, wcards) in wheels:
                below = [k for i, (k, _) in items if i < widx]
                above = [k for i, (k, _) in items if i > widx]
                # low type: a greater index is a weaker hand
                if any(k < wkey for k in below) or \
                        any(k > wkey for k in above):
                    viols.append(V(ID, WHEEL, cname,
                                   f'{cname}: {wcards} is ranked as a'
                                   ' straight (below pairs and trips); in'
                                   ' deuce-to-seven the ace is only high'
                                   ' and 5-4-3-2-A is the best ace-high'))
                    break
        for (i1, (k1, c1)), (i2, (k2, c2)) in zip(items, items[1:]):
            # engine: higher index = greater entry; low types invert
            stronger_second = k2 > k1
            engine_stronger_second = not low
            if stronger_second != engine_stronger_second and k1 != k2:
                viols.append(V(ID, 'order', cname,
                               f'{cname}: engine ranks {c2} '
                               f'{"above" if not low else "below"} {c1} but'
                               f' the rules say otherwise'))
                break
        if items:
            samples.append(dict(hand_class=cname, weakest_index=items[0][1][1],
                                strongest_index=items[-1][1][1],
                                distinct_ranks=len(items)))
    info = dict(evaluations=total, distinct_nontrivial=classes_nt,
                samples=samples, exhaustive=True, per_class=per_class)
    # de-duplicate
    uniq = {}
    for v in viols:
        uniq.setdefault(v.sig, v)
    return list(uniq.values()), info


# ---- Hypothesis part --------------------------------------------------------

RANKS = '23456789TJQKA'
SUITS = 'cdhs'
ALL_CARDS = [r + s for r in RANKS for s in SUITS]


@st.composite
def templated_hand(draw, ranks=RANKS):
    shape = draw(st.sampled_from([
        (1, 1, 1, 1, 1), (2, 1, 1, 1), (2, 2, 1), (3, 1, 1), (3, 2), (4, 1),
        'straight', 'flush', 'straight_flush', 'low8', 'random',
    ]))
    if shape == 'random':
        return draw(st.lists(st.sampled_from(ALL_CARDS), min_size=5,
                             max_size=5, unique=True))
    if shape in ('straight', 'straight_flush'):
        order = 'A' + ranks if ranks == RANKS else 'A' + ranks
        order = ('A' + ranks.replace('A', '')) + 'A'
        i = draw(st.integers(0, len(order) - 5))
        rs_ = list(order[i:i + 5])
        if shape == 'straight_flush':
            s = draw(st.sampled_from(SUITS))
            return [r + s for r in rs_]
        suits = draw(st.lists(st.sampled_from(SUITS), min_size=5,
                              max_size=5))
        return [r + s for r, s in zip(rs_, suits)]
    if shape == 'flush':
        rs_ = draw(st.lists(st.sampled_from(ranks), min_size=5, max_size=5,
                            unique=True))
        s = draw(st.sampled_from(SUITS))
        return [r + s for r in rs_]
    if shape == 'low8':
        rs_ = draw(st.lists(st.sampled_from('A2345678'), min_size=5,
                            max_size=5, unique=True))
        suits = draw(st.lists(st.sampled_from(SUITS), min_size=5,
                              max_size=5))
        return [r + s for r, s in zip(rs_, suits)]
    rs_ = draw(st.lists(st.sampled_from(ranks), min_size=len(shape),
                        max_size=len(shape), unique=True))
    cards = []
    for r, k in zip(rs_, shape):
        suits = draw(st.lists(st.sampled_from(SUITS), min_size=k, max_size=k,
                              unique=True))
        cards += [r + s for s in suits]
    return cards


@st.composite
def mutated(draw, cards, pool=ALL_CARDS):
    cards = list(cards)
    if not cards:
        return cards
    how = draw(st.integers(0, 5))
    if how == 4:
        # a hand padded with a card of unknown rank (not a card set of the
        # right size any more)
        return cards + [draw(st.sampled_from(['??', '?s', '?h']))]
    if how == 5:
        # one card swapped for an unknown one
        i = draw(st.integers(0, len(cards) - 1))
        # (rank unknown; a known rank with an unknown suit, 'A?', is the
        # half-known card that is outside the stated domain, see MANIFEST)
        cards[i] = draw(st.sampled_from(['??', '?c', '?d']))
        return cards
    if how == 0:
        # replace one card
        i = draw(st.integers(0, len(cards) - 1))
        c = draw(st.sampled_from(pool))
        if c not in cards:
            cards[i] = c
        return cards
    if how == 1:
        # change one card's suit
        i = draw(st.integers(0, len(cards) - 1))
        c = cards[i][0] + draw(st.sampled_from(SUITS))
        if c not in cards:
            cards[i] = c
        return cards
    if how == 2:
        # re-suit everything keeping ranks (same rank multiset)
        out = []
        for c in cards:
            for s in draw(st.permutations(SUITS)):
                if c[0] + s not in out:
                    out.append(c[0] + s)
                    break
        return out
    return draw(st.permutations(cards))


@st.composite
def c04_case(draw):
    cname = draw(st.sampled_from(list(CLASSES)))
    base = refeval.BASE[cname]
    if base in ('badugi', 'standard_badugi'):
        k = draw(st.integers(1, 4))
        a = draw(st.lists(st.sampled_from(ALL_CARDS), min_size=k, max_size=k,
                          unique=True))
        if draw(st.booleans()):
            # rainbow, unpaired by construction
            rs_ = draw(st.lists(st.sampled_from(RANKS), min_size=k,
                                max_size=k, unique=True))
            ss = draw(st.permutations(SUITS))[:k]
            a = [r + s for r, s in zip(rs_, ss)]
    elif base == 'kuhn':
        a = [draw(st.sampled_from(['Js', 'Qs', 'Ks', 'As', 'Jh', 'Ts']))]
    elif base == 'short_deck':
        a = draw(templated_hand('6789TJQKA'))
    else:
        a = draw(templated_hand())
    mode = draw(st.integers(0, 9))
    if mode <= 4:
        b = draw(mutated(a))
    elif mode <= 7:
        if base in ('badugi', 'standard_badugi'):
            k = draw(st.integers(1, 4))
            rs_ = draw(st.lists(st.sampled_from(RANKS), min_size=k,
                                max_size=k, unique=True))
            ss = draw(st.permutations(SUITS))[:k]
            b = [r + s for r, s in zip(rs_, ss)]
        elif base == 'kuhn':
            b = [draw(st.sampled_from(['Js', 'Qs', 'Ks']))]
        elif base == 'short_deck':
            b = draw(templated_hand('6789TJQKA'))
        else:
            b = draw(templated_hand())
    else:
        # validity corner: wrong size / unknown / foreign cards
        n = draw(st.integers(0, 7))
        b = draw(st.lists(st.sampled_from(ALL_CARDS + ['??']),
                          min_size=n, max_size=n, unique=True))
    # how the card set is handed over (all documented CardsLike forms mean
    # the same cards: text, text with separators, Card objects in a tuple or
    # list, a one-shot iterator, the generator Card.parse returns)
    form = draw(st.sampled_from(['str', 'str', 'spaced', 'tuple', 'list',
                                 'iter', 'gen', 'set']))
    return dict(cls=cname, a=a, b=b, form=form)


def budget(tier):
    if tier == 'quick':
        return dict(examples=40000, wall=60)
    return dict(examples=600000, wall=600)


def strategy(tier):
    return c04_case()


def as_form(cards, form):
    """The same cards in one of the documented CardsLike spellings."""
    from pokerkit import Card
    text = ''.join(cards)
    if form in (None, 'str'):
        return text
    if form == 'spaced':
        return ', '.join(cards)
    objs = tuple(Card.parse(text))
    if form == 'tuple':
        return objs
    if form == 'list':
        return list(objs)
    if form == 'iter':
        return iter(objs)
    if form == 'gen':
        return Card.parse(text)
    if form == 'set':
        # an unordered collection (only for distinct cards)
        return frozenset(objs) if len(set(objs)) == len(objs) else objs
    raise ValueError(form)


def _build(cls, cards, form=None):
    try:
        return cls(as_form(cards, form))
    except Exception as e:  # noqa: BLE001
        return e


def check(case, stats):
    cname = case['cls']
    cls = getattr(pokerkit, cname)
    out = []
    hands = []
    for cards in (case['a'], case['b']):
        ref = refeval.key_rules(cname, [(c[0], c[1]) for c in cards])
        form = case.get('form')
        if any('?' in c for c in cards) and form == 'set':
            form = 'tuple'
        # the same ordered cards are first shown to two other hand types'
        # lookups (a verdict must not depend on what else was looked up in
        # this process) and the construction is repeated (nor on itself)
        try:
            from pokerkit import Card as _Card
            objs_ = tuple(_Card.parse(''.join(cards)))
            for other in (pokerkit.StandardHighHand, pokerkit.RegularLowHand,
                          pokerkit.BadugiHand):
                if other is not cls:
                    other.lookup.has_entry(objs_)
        except Exception:  # noqa: BLE001
            pass
        h = _build(cls, cards, form)
        h_again = _build(cls, cards, form)
        accepted = not isinstance(h, Exception)
        if accepted != (not isinstance(h_again, Exception)):
            out.append(V(ID, 'verdict_changes_on_repetition', cname,
                         f'{cname}({"".join(cards)!r} as {form or "str"}):'
                         f' first {"accepted" if accepted else "rejected"},'
                         ' then the opposite'))
        if accepted and form == 'list' and not any('?' in c for c in cards):
            # a hand keeps its own cards: the caller's list may be reused
            from pokerkit import Card
            buf = list(Card.parse(''.join(cards)))
            h_alias = cls(buf)
            buf[:] = list(Card.parse('7c5d4h3s2c'))[:len(buf)]
            buf.reverse()
            fresh = cls(''.join(cards))
            if tuple(h_alias.cards) != tuple(fresh.cards) or \
                    not (h_alias == fresh) or h_alias < fresh \
                    or h_alias > fresh:
                out.append(V(ID, 'hand_aliases_callers_list', cname,
                             f'{cname}(list of {"".join(cards)}) changed to'
                             f' {h_alias!r} after the list was reused'))
        if accepted != (ref is not None):
            out.append(V(ID, 'validity', f'{cname}:{form or "str"}',
                         f'{cname}({"".join(cards)!r} as {form or "str"}):'
                         ' engine'
                         f' {"accepted" if accepted else "rejected " + repr(h)}'
                         f', rules say {"valid" if ref is not None else "not a hand"}'))
        if not accepted:
            stats.count('rejected')
        hands.append((h if accepted else None, ref, cards))
    (ha, ka, ca), (hb, kb, cb) = hands
    nontrivial = ha is None or hb is None
    if ha is not None and hb is not None and ka is not None \
            and kb is not None:
        want = (ka < kb, ka <= kb, ka == kb, ka != kb, ka >= kb, ka > kb)
        got = (ha < hb, ha <= hb, ha == hb, ha != hb, ha >= hb, ha > hb)
        wheel = cname == 'StandardLowHand' and (
            refeval.is_wheel([(c[0], c[1]) for c in ca])
            or refeval.is_wheel([(c[0], c[1]) for c in cb]))
        if wheel:
            stats.count('class:deuce_to_seven_wheel')
        if want != got and wheel:
            out.append(V(ID, WHEEL, cname,
                         f'{cname}: {"".join(ca)} vs {"".join(cb)}:'
                         f' (<,<=,==,!=,>=,>) engine {got} rule book {want}'))
        elif want != got:
            out.append(V(ID, 'comparison', cname,
                         f'{cname}: {"".join(ca)} vs {"".join(cb)}:'
                         f' (<,<=,==,!=,>=,>) engine {got} rules {want}'))
        if ka == kb and hash(ha) != hash(hb):
            out.append(V(ID, 'hash', cname,
                         f'{cname}: equal hands {"".join(ca)} {"".join(cb)}'
                         ' hash differently'))
        for h, cards in ((ha, ca), (hb, cb)):
            wl = refeval.category_rules(cname, [(c[0], c[1]) for c in cards])
            if wl is not None and h.entry.label.value != wl and \
                    cname == 'StandardLowHand' and refeval.is_wheel(
                        [(c[0], c[1]) for c in cards]):
                out.append(V(ID, WHEEL, cname,
                             f'{cname}({"".join(cards)}) label'
                             f' {h.entry.label.value!r}, rule book {wl!r}'))
            elif wl is not None and h.entry.label.value != wl:
                out.append(V(ID, 'label', cname,
                             f'{cname}({"".join(cards)}) label'
                             f' {h.entry.label.value!r} != {wl!r}'))
        if ka[0] != kb[0]:
            nontrivial = True
            stats.count('class:different_category')
        else:
            d = next((i for i, (x, y) in enumerate(zip(ka, kb)) if x != y),
                     None)
            if d is None:
                stats.count('class:equal_rank')
                nontrivial = nontrivial or ca != cb
            elif d >= 2:
                stats.count('class:deep_kicker')
                nontrivial = True
            else:
                stats.count('class:same_category_shallow')
    stats.count('cls:' + cname)
    stats.count('form:' + str(case.get('form') or 'str'))
    if nontrivial:
        stats.count('nontrivial')
        stats.mark_nontrivial((cname, tuple(sorted(ca)), tuple(sorted(cb))))
    stats.sample(dict(hand_class=cname, a=''.join(ca), b=''.join(cb),
                      key_a=ka, key_b=kb), nontrivial)
    return out
