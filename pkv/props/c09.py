"""C09 - automation only changes who performs a step, not the hand.

Twin runs: the state created with automation subset S, and a state with no
automation whose user (the harness) performs, before every decision, every
enabled operation whose kind is in S with default arguments, in the engine's
documented order.  Both are driven by the same tape with the same shuffled
deck.  Oracle: identical operation logs, element by element, and identical
final state.
"""
from __future__ import annotations

import warnings

from hypothesis import strategies as st

from .. import gen
from ..engine import (
    AUTOMATIONS,
    AUTO_KIND,
    Discard,
    CAN,
    FULL_MASK,
    Interp,
    NOT_ENOUGH_CARDS,
    build_state,
    describe_op,
    describe_ops,
    exc_key,
    is_engine_exception,
    observing,
    op_kind,
    patch_shuffled,
    snapshot,
    snapshot_diff,
    _runaway_observer,
)
from ..runner import V

ID = 'C09'
RULE = (
    'cases = (config with automation subset S, tape); twin = same config with'
    ' no automation, the harness performing each enabled S-kind operation'
    ' with default arguments before every decision, in the order ante,'
    ' collection, blind, burn, hole, board, run-out choice, show/muck, kill,'
    ' push, pull; same deck seed, same tape. Oracle: operation logs equal'
    ' element by element (players, amounts, cards) and final states equal'
    ' field by field. Thorough draws S uniformly from all 2^11 subsets.'
    ' Non-trivial = S neither empty nor full and the hand reaches a showdown'
    ' or an all-in run-out; distinct = distinct (config, log).'
)
ASSUMPTIONS = [
    'the re-shuffle of reserved cards is replaced by a pure function of the'
    ' multiset in both runs (the engine\'s queries consume the global RNG)',
    'showdown hands known',
]


class EagerInterp(Interp):
    """No automation in the engine; the harness plays the automated kinds."""

    def __init__(self, cfg, tape, mask):
        super().__init__(cfg, tape, mask=0)
        self.auto_kinds = [AUTO_KIND[a] for i, a in enumerate(AUTOMATIONS)
                           if mask >> i & 1]
        self.eager_count = 0

    def eager(self):
        s = self.state
        progressed = True
        while progressed and s.status:
            progressed = False
            for k in self.auto_kinds:
                if getattr(s, CAN[k])():
                    getattr(s, k)()
                    self.eager_count += 1
                    progressed = True
                    break

    def run(self, max_steps=None):
        self.eager()
        count = 0
        while self.state.status:
            k = self.step()
            if k is None:
                return 'stuck'
            self.eager()
            count += 1
            if count >= (max_steps or self.MAX_STEPS):
                return 'long'
        return 'done'


def run_one(cfg, tape, eager_mask=None):
    """returns (outcome, state, exc)"""
    patch_shuffled(True)
    state = None
    it = None
    with warnings.catch_warnings():
        warnings.simplefilter('error' if cfg.get('strict') else 'ignore')
        with observing(_runaway_observer):
            try:
                if eager_mask is None:
                    it = Interp(cfg, tape)
                else:
                    it = EagerInterp(cfg, tape, eager_mask)
                state = it.state
                out = it.run()
                return out, state, None, it
            except Discard:
                return 'discard', None, None, it
            except Exception as e:  # noqa: BLE001
                if not is_engine_exception(e):
                    raise
                return 'exc', (it.state if it else None), e, it


# coverage-guided campaign (pkv/fuzz.py): same strategy and oracle driven by
# libFuzzer through Hypothesis' fuzz_one_input; pokerkit instrumented
FUZZ = dict(
    thorough=dict(procs=16, runs=6000, wall=900),
)


def budget(tier):
    if tier == 'quick':
        return dict(examples=6000, wall=100)
    return dict(examples=80000, wall=1500)


def strategy(tier):
    common = dict(unknown=False, tape_size=100)
    pools = [
        gen.cases(mask_strategy=st.integers(1, FULL_MASK - 1), **common),
        gen.cases(**common),
        gen.cases(mask_strategy=st.integers(1, FULL_MASK - 1),
                  short_bias=True, **common),
        # full stud tables (and custom hole+board streets) played to the end:
        # the deck runs short and the fall-back deals shared cards
        gen.cases(mask_strategy=st.integers(1, FULL_MASK - 1),
                  games=('F7S', 'F7S8', 'FR'), custom=True,
                  custom_families=('mixed', 'stud'), min_players=7,
                  profiles=(5, 6), rake=False, **common),
        # raked tables where most hands are folded out: small pots that the
        # rake (100 %, or a flat drop) may take whole
        gen.cases(mask_strategy=st.integers(1, FULL_MASK - 1),
                  profiles=(3, 3, 0), rake='always', custom=False,
                  **common),
    ]
    return st.one_of(*pools)


def check(case, stats):
    cfg = case['config']
    mask = cfg['autos']
    a_out, a, a_exc, a_it = run_one(cfg, case['tape'])
    if a_exc is not None and isinstance(a_exc, ValueError) \
            and NOT_ENOUGH_CARDS in str(a_exc):
        stats.count('discard')
        return []
    if a_out == 'discard':
        stats.count('discard')
        return []
    b_out, b, b_exc, b_it = run_one(cfg, case['tape'], eager_mask=mask)
    stats.count('outcome:' + a_out + '/' + b_out)
    if b_out == 'discard':
        stats.count('discard')
        return []
    out = []
    # in the automated run the user is never left with a step that is
    # automated: whatever the harness had to perform itself is not in S
    if a_it is not None:
        auto_kinds = {AUTO_KIND[x] for j, x in enumerate(AUTOMATIONS)
                      if mask >> j & 1}
        left = [(k, args) for k, args in a_it.steps if k in auto_kinds]
        if left:
            out.append(V(ID, 'automated_step_left_to_user', left[0][0],
                         f'with S={sorted(auto_kinds)} the engine left'
                         f' {left[0][0]}{left[0][1]!r} to the user (step'
                         f' {a_it.steps.index(left[0])} of {len(a_it.steps)})'))
            return out
    if a is None or b is None:
        if (a is None) != (b is None) or (
                a_exc is not None and b_exc is not None
                and type(a_exc) is not type(b_exc)):
            out.append(V(ID, 'construction_differs', '',
                         f'automated: {a_exc!r}; manual twin: {b_exc!r}'))
        elif a_exc is not None and not isinstance(a_exc, ValueError):
            out.append(V(ID, 'engine_crash', exc_key(a_exc), repr(a_exc)))
        return out
    ops_a, ops_b = a.operations, b.operations
    if ops_a != ops_b:
        i = next((i for i, (x, y) in enumerate(zip(ops_a, ops_b)) if x != y),
                 min(len(ops_a), len(ops_b)))
        xa = describe_op(ops_a[i]) if i < len(ops_a) else '<end>'
        xb = describe_op(ops_b[i]) if i < len(ops_b) else '<end>'
        kind = op_kind(ops_a[i]) if i < len(ops_a) else (
            op_kind(ops_b[i]) if i < len(ops_b) else 'end')
        extra = ''
        if a_exc is not None or b_exc is not None:
            extra = f' (automated run: {a_exc!r}; twin: {b_exc!r})'
        out.append(V(ID, 'logs_differ', str(kind),
                     f'operation #{i}: automated {xa} vs manual twin {xb};'
                     f' S={[x.name for j, x in enumerate(AUTOMATIONS) if mask >> j & 1]}'
                     f'{extra}'))
        return out
    if (a_exc is None) != (b_exc is None):
        out.append(V(ID, 'one_run_failed', '',
                     f'automated: {a_exc!r}; manual twin: {b_exc!r}'))
        return out
    if a_exc is not None:
        if not isinstance(a_exc, (ValueError, UserWarning)):
            out.append(V(ID, 'engine_crash', exc_key(a_exc), repr(a_exc)))
        return out
    sa, sb = snapshot(a), snapshot(b)
    d = snapshot_diff(sa, sb)
    if d:
        out.append(V(ID, 'final_state_differs', ','.join(d),
                     f'fields {d}: automated {[sa[k] for k in d][:3]} vs'
                     f' twin {[sb[k] for k in d][:3]}'))
    kinds = {op_kind(o) for o in ops_a}
    partial = mask not in (0, FULL_MASK)
    showdown = 'show_or_muck_hole_cards' in kinds
    stats.count('mask:' + ('partial' if partial else 'full_or_empty'))
    if showdown:
        stats.count('class:showdown')
    if a.all_in_status:
        stats.count('class:all_in')
    stats.count('eager_steps', b_it.eager_count)
    nontrivial = partial and (showdown or a.all_in_status)
    if nontrivial:
        stats.count('nontrivial')
        stats.mark_nontrivial((sorted(cfg.items(), key=str),
                               tuple(map(repr, ops_a))))
    stats.sample(dict(config=cfg, operations=describe_ops(a, 50)),
                 nontrivial)
    return out
