"""C02 - every pot goes to the best eligible live hand(s), in the right
amounts.

Oracle: the reference award calculator (pkv/refaward.py + pkv/refeval.py)
evaluated on a snapshot taken immediately before the first chips pushing:
(1) pot structure (amounts, eligible players, rake) rebuilt from the collected
bets of the log; (2) every ChipsPushing record equals the expected one;
(3) final payoffs equal received minus collected; (4) the stated corollaries.
"""
from __future__ import annotations

from decimal import Decimal
from fractions import Fraction

from hypothesis import strategies as st

from .. import gen, refaward
from ..engine import (
    _chunk_divmod,
    chip,
    describe_ops,
    exc_key,
    op_kind,
    run_case,
)
from ..refeval import rs
from ..runner import V

ID = 'C02'
RULE = (
    'cases = (config, tape) with known cards, biased to multi-way all-ins'
    ' (stacks at distinct levels, short stacks, never-fold profiles), rigged'
    ' deck orders (low-heavy, few ranks, one suit first) so that ties,'
    ' non-qualifying lows and board-plays occur, 1-3 boards, run-outs,'
    ' trimmed/untrimmed antes, rake, custom divmod, int/Fraction/float/Decimal.'
    ' Oracle: reference pots (amount, eligible set, rake) from the collected'
    ' bets; every ChipsPushing equals the reference award (best reference hand'
    ' among the pot\'s eligible live players per board and per hand type some'
    ' contender qualifies for, equal shares, remainder to first board / first'
    ' type / lowest index); payoffs = received - collected; folded/mucked/'
    'killed win nothing; nobody receives more than sum_j min(w_i, w_j) (+ dead'
    ' antes); a lone survivor takes everything. Non-trivial = >=2 pots, a'
    ' tie, a hi-lo pot without a qualifying low, or >1 board; distinct ='
    ' distinct (config, log).'
)
ASSUMPTIONS = [
    'showdown hands known (stated domain)',
    'odd-chip routing across boards and hand types follows the documented'
    ' "remainder to the first" convention of the default divmod',
    'a tabled subset of hole cards (cash-game partial show) is the hand that'
    ' player plays',
]


class Obs:
    """Keeps the last state summary seen before the first ChipsPushing."""

    def __init__(self):
        self.pre = None
        self.pushing = False

    def __call__(self, s, op):
        if self.pushing:
            return
        if op is not None and type(op).__name__ == 'ChipsPushing':
            self.pushing = True
            return
        self.pre = self.capture(s)

    @staticmethod
    def capture(s):
        n = s.player_count
        up = []
        for i in range(n):
            up.append([rs(c) for c, st_ in zip(s.hole_cards[i],
                                               s.hole_card_statuses[i])
                       if st_ and c])
        try:
            boards = [[rs(c) for c in s.get_board_cards(j)]
                      for j in s.board_indices]
        except Exception:  # noqa: BLE001
            boards = None
        pots = [(p.raked_amount, p.unraked_amount, list(p.player_indices))
                for p in s.pots]
        return dict(live=list(s.statuses), up=up, boards=boards, pots=pots,
                    any_board=any(s.board_cards),
                    all_known=all(bool(c) for h in s.hole_cards for c in h))


def _rake_cfg(cfg):
    r = cfg.get('rake')
    if not r:
        return None
    if r[0] == 'flat':
        return 'flat', chip(cfg, r[1]), r[2]
    num, den, cap, nfnd = r
    t = cfg.get('chip', 'int')
    if t == 'frac':
        pct = Fraction(num, den)
    elif t == 'dec':
        pct = Decimal(num) / Decimal(den)
    else:
        pct = num / den
    return pct, (None if cap is None else chip(cfg, cap)), nfnd


def budget(tier):
    if tier == 'quick':
        return dict(examples=6000, wall=100)
    return dict(examples=120000, wall=1500)


def strategy(tier):
    rigs = (None, None, 'low', 'fewranks', 'suited')
    common = dict(unknown=False, tape_size=90, rigs=rigs)
    return st.one_of(
        gen.cases(profiles=(5, 5, 5, 2), short_bias=True, min_players=3,
                  **common),
        gen.cases(profiles=(5, 5, 2, 1), min_players=3, **common),
        gen.cases(games=('FO8', 'F7S8', 'NR', 'NS', 'PO', 'NT'),
                  profiles=(5, 2), min_players=3, **common),
        gen.cases(**common),
        # some stacks "not mentioned" (math.inf): the chips in the pots are
        # the same chips, divided the same way
        gen.cases(profiles=(5, 2, 1), min_players=3, inf_stacks=True,
                  chips=('int',), **common),
    )


def _close(a, b, tol):
    return abs(a - b) <= tol


def uncalled_return_check(ops, n, zero, trimming, tol):
    """At every BetCollection the chips not collected from a player who is
    not the lone survivor are the uncalled part of the largest bet: only a
    player whose bet strictly exceeds every other bet of the round (folded
    players' bets included - they are in the pot) gets anything back, and he
    gets back exactly the excess over the second largest bet; untrimmed antes
    are never returned.  Returns (key, message) or None."""
    rnd = [zero] * n
    live = [True] * n
    ante_stage = True
    for idx, o in enumerate(ops):
        k = op_kind(o)
        if k in ('post_ante', 'post_blind_or_straddle', 'post_bring_in',
                 'check_or_call'):
            rnd[o.player_index] += o.amount
            if k != 'post_ante':
                ante_stage = False
        elif k == 'complete_bet_or_raise_to':
            rnd[o.player_index] = o.amount
            ante_stage = False
        elif k == 'fold':
            live[o.player_index] = False
        elif k in ('deal_hole', 'deal_board', 'burn_card'):
            ante_stage = False
        elif k == 'collect_bets':
            survivor = live.index(True) if sum(live) == 1 else None
            top = sorted(rnd)
            second = top[-2]
            for i in range(n):
                if i == survivor:
                    continue
                back = rnd[i] - o.bets[i]
                if ante_stage and not trimming:
                    want = zero
                elif rnd[i] > second:
                    want = rnd[i] - second
                else:
                    want = zero
                if not _close(back, want, tol):
                    return (
                        'folded_player' if not live[i] else
                        'ante' if ante_stage else 'live_player',
                        f'operation #{idx} {o!r}: player {i} bet {rnd[i]} in'
                        f' the round (all bets {rnd}, live {live}) and'
                        f' {o.bets[i]} was collected: {back} returned,'
                        f' uncalled part is {want}')
            rnd = [zero] * n
            if survivor is not None:
                break
    return None


def check(case, stats):
    cfg = case['config']
    obs = Obs()
    hooks = None
    if cfg.get('deck_seed', 0) % 2:
        # in half of the cases a "user interface" reads every public property
        # and accessor between the operations (C15 decides that looking does
        # not change the hand; here the award oracle judges the observed run)
        from .c15 import Observe
        hooks = Observe(cfg['deck_seed'] // 2)
        stats.count('class:observed_run')
    res = run_case(case, observers=(obs,), hooks=hooks)
    stats.count('outcome:' + str(res.outcome))
    if res.outcome == 'discard':
        return []
    if res.outcome in ('crash', 'hang', 'runaway'):
        return [V(ID, 'engine_crash', exc_key(res.exc),
                  f'{type(res.exc).__name__}: {res.exc}')]
    if res.outcome != 'done':
        stats.count('incomplete_hand')
        return []
    s = res.state
    pre = obs.pre
    ops = s.operations
    pushes = [o for o in ops if op_kind(o) == 'push_chips']
    n = s.player_count
    tol = 0 if cfg.get('chip', 'int') in ('int', 'frac') else \
        1e-9 * max(1.0, float(sum(s.starting_stacks)))
    out = []
    if pre is None or pre['boards'] is None:
        return [V(ID, 'harness_no_snapshot', '', 'no pre-push snapshot')]
    live = pre['live']
    nlive = sum(live)
    if nlive == 0:
        stats.count('no_live_player_no_pot')
        return []
    # (1) pots from the log
    from ..engine import chip as _chip
    zero = _chip(cfg, 0)        # (0 * inf is nan: a stack may be unknown)
    collected = [zero] * n
    ante_part = [zero] * n
    seen_deal = False
    for o in ops:
        k = op_kind(o)
        if k in ('deal_hole', 'deal_board', 'burn_card'):
            seen_deal = True
        if k == 'collect_bets':
            for i in range(n):
                collected[i] += o.bets[i]
                if not seen_deal and not any(
                        op_kind(x) == 'post_blind_or_straddle'
                        for x in ops[:ops.index(o)]):
                    ante_part[i] += o.bets[i]
    # (0) each bet collection returns exactly the uncalled part of the
    # largest bet: round bets are rebuilt from the posting/betting records,
    # independently of the BetCollection records
    bad = uncalled_return_check(ops, n, zero, s.ante_trimming_status, tol)
    if bad:
        out.append(V(ID, 'uncalled_bet_return', bad[0], bad[1]))
        return out
    ref_pots = refaward.build_pots(collected, ante_part, live,
                                   s.ante_trimming_status)
    orphan = refaward.build_pots.orphan
    eng_pots = pre['pots']
    rk = _rake_cfg(cfg)
    if nlive >= 2:
        if [(a, e) for a, e in ref_pots] != [
                (r + u, e) for r, u, e in eng_pots]:
            if tol == 0 or len(ref_pots) != len(eng_pots) or any(
                    not _close(a, r + u, tol) or e != e2
                    for (a, e), (r, u, e2) in zip(ref_pots, eng_pots)):
                out.append(V(ID, 'pot_structure', '',
                             f'engine pots {eng_pots} vs reference'
                             f' {ref_pots}; collected {collected} antes'
                             f' {ante_part} live {live}'))
                return out
    else:
        if not _close(sum(a for a, _ in ref_pots),
                      sum(r + u for r, u, _ in eng_pots), tol):
            out.append(V(ID, 'pot_structure', 'total',
                         f'engine pots {eng_pots} vs collected {collected}'))
            return out
    # rake per pot
    unraked = []
    for r, u, e in eng_pots:
        er, eu = refaward.ref_rake(r + u, rk, cfg.get('chip'),
                                   pre['any_board'])
        if not _close(er, r, tol) or not _close(eu, u, tol):
            out.append(V(ID, 'rake_amount', '',
                         f'pot {r + u}: engine raked {r}/{u}, documented'
                         f' rake gives {er}/{eu}'))
            return out
        unraked.append((u, e))
    # (2) expected pushes
    dm = _chunk_divmod if cfg.get('divmod') == 'custom' else None
    hts = [t.__name__ for t in s.hand_types]
    exp, totals = refaward.award(unraked, live, pre['up'], pre['boards'],
                                 hts, dm)
    act = [(o.pot_index, o.board_index, o.hand_type_index, tuple(o.amounts))
           for o in pushes]
    act_nz = [a for a in act if any(a[3])]
    exp_nz = [e for e in exp if any(e[3])]
    same = len(act_nz) == len(exp_nz) and all(
        a[:3] == e[:3] and all(_close(x, y, tol) for x, y in zip(a[3], e[3]))
        for a, e in zip(act_nz, exp_nz))
    if not same:
        i = next((i for i, (a, e) in enumerate(zip(act_nz, exp_nz))
                  if a[:3] != e[:3] or any(
                      not _close(x, y, tol) for x, y in zip(a[3], e[3]))),
                 min(len(act_nz), len(exp_nz)))
        a = act_nz[i] if i < len(act_nz) else None
        e = exp_nz[i] if i < len(exp_nz) else None
        out.append(V(ID, 'award', '',
                     f'push #{i}: engine (pot, board, type, amounts)={a},'
                     f' reference {e}; pots {unraked}; live {live}; tabled'
                     f' {pre["up"]}; boards {pre["boards"]}; types {hts}'))
        return out
    # (3) payoffs
    received = [zero] * n
    for o in pushes:
        for i in range(n):
            received[i] += o.amounts[i]
    for i in range(n):
        if not _close(s.payoffs[i], received[i] - collected[i], tol):
            out.append(V(ID, 'payoff', '',
                         f'player {i}: payoff {s.payoffs[i]} != received'
                         f' {received[i]} - collected {collected[i]}'))
            return out
    # (4) corollaries
    for o in pushes:
        for i in range(n):
            if o.amounts[i] and not live[i]:
                out.append(V(ID, 'dead_hand_wins', '',
                             f'player {i} (folded/mucked/killed) receives'
                             f' {o.amounts[i]} in {o!r}'))
                return out
    dead = zero if s.ante_trimming_status else sum(ante_part)
    for i in range(n):
        wi = collected[i] - (zero if s.ante_trimming_status else ante_part[i])
        cap_i = dead
        for j in range(n):
            wj = collected[j] - (zero if s.ante_trimming_status
                                 else ante_part[j])
            cap_i += min(wi, wj)
        # (not demanded when a contribution level lost all its live
        # contributors - gratuitous folds, mucks - and joined the pot below)
        if nlive >= 2 and not orphan and received[i] - cap_i > tol:
            out.append(V(ID, 'wins_more_than_matched', '',
                         f'player {i} receives {received[i]} > {cap_i}'))
            return out
    if nlive == 1:
        w = live.index(True)
        tot = sum(u for u, _ in unraked)
        if not _close(received[w], tot, tol):
            out.append(V(ID, 'lone_survivor', '',
                         f'survivor {w} receives {received[w]} of {tot}'))
    # classification
    flags = set()
    if len(eng_pots) >= 2 and nlive >= 2:
        flags.add('side_pots')
    if any(sum(1 for x in a[3] if x) >= 2 for a in act_nz):
        flags.add('tie')
    if len(pre['boards']) > 1 and nlive >= 2:
        flags.add('multi_board')
    if len(hts) == 2 and nlive >= 2:
        keys = {(a[0], a[1]) for a in act_nz}
        two = {(a[0], a[1]) for a in act_nz if a[2] == 1}
        if keys - two:
            flags.add('hilo_no_low_in_some_pot')
        if two:
            flags.add('hilo_low_qualifies')
    if nlive == 1:
        flags.add('lone_survivor')
    if rk:
        flags.add('rake')
    for f in flags:
        stats.count('class:' + f)
    stats.count('game:' + cfg['game'])
    nontrivial = bool(flags & {'side_pots', 'tie', 'multi_board',
                               'hilo_no_low_in_some_pot'})
    if nontrivial:
        stats.count('nontrivial')
        stats.mark_nontrivial((sorted(cfg.items(), key=str),
                               tuple(map(repr, ops))))
    stats.sample(dict(config=cfg, pots=eng_pots, pushes=act_nz,
                      operations=describe_ops(s, 50)), nontrivial)
    return out
