"""C10 - dealing follows the street definitions.

A small reference model (refdeal, in this file) accounts, per street instance,
for the burn, the hole cards each player received with their facing, the
community cards, and the draws, and compares them with what the street
definition prescribes - including the stud fall-back to shared board cards
when the deck (with the recycled piles) cannot cover the street, the order of
automated dealing, and "no betting while dealing is pending".
"""
from __future__ import annotations

from hypothesis import strategies as st

from .. import gen
from ..engine import (
    AUTOMATIONS,
    Hooks,
    describe_ops,
    exc_key,
    op_kind,
    run_case,
)
from ..runner import V

ID = 'C10'
RULE = (
    'cases = (config, tape): all variants and custom street lists (flop, stud'
    ' with mixed up/down cards, 1-3 draws, Kuhn/Leduc-like), manual and'
    ' automated dealing, 1..pending cards per deal_hole call, explicit'
    ' players, 1-3 boards, run-outs, deck-exhaustion layouts (7-8 handed'
    ' stud, small decks). Oracle per street instance: burn exactly when'
    ' prescribed and first; every player live at the start of the street gets'
    ' exactly the prescribed hole cards with the prescribed facing, folded'
    ' players nothing; each board gets exactly the prescribed community'
    ' cards; in a draw everybody stands pat/discards once before the burn,'
    ' only cards he holds, and gets back as many with the same facing; when'
    ' pending hole cards exceed deck+burns+muck+discards the street is dealt'
    ' as board cards of the same count; automated hole dealing is round-robin'
    ' in position order (position blocks in a draw); no betting query is'
    ' true while dealing is pending; betting on a street only after its'
    ' dealing. Non-trivial = a street with a fold before it, a draw with a'
    ' discard, the fall-back, or > 1 board; distinct = (config, log).'
)
ASSUMPTIONS = ['phases are C07\'s; card identity/conservation is C06\'s']

DEAL = ('burn_card', 'deal_hole', 'deal_board', 'stand_pat_or_discard')
BETTING = ('fold', 'check_or_call', 'post_bring_in',
           'complete_bet_or_raise_to')


def reserve_count(s):
    return sum(1 for c in s.burn_cards if c) + \
        sum(1 for c in s.mucked_cards if c) + \
        sum(1 for d in s.discarded_cards for c in d if c)


class Inst:
    def __init__(self, si, street, live, avail, nb, facing):
        self.si = si
        self.street = street
        self.live = live
        self.nb = nb
        self.burns = 0
        self.hole = {i: [] for i in range(len(live))}
        self.board = 0
        self.discards = {}
        self.facing = facing          # hole_card_statuses before the street
        need = sum(live) * len(street.hole_dealing_statuses)
        self.fallback = bool(street.hole_dealing_statuses) and need > avail
        self.order = []               # dealee sequence

    def requirement_met(self):
        return not self.missing()

    def missing(self):
        st_ = self.street
        out = []
        if self.burns != (1 if st_.card_burning_status else 0):
            out.append(f'burns {self.burns}')
        nh = len(st_.hole_dealing_statuses)
        if self.fallback:
            if self.board != (st_.board_dealing_count + nh) * self.nb:
                out.append(f'board cards {self.board} (fall-back expects'
                           f' {(st_.board_dealing_count + nh) * self.nb})')
            if any(self.hole[i] for i in self.hole):
                out.append('hole cards dealt despite the fall-back')
            return out
        if self.board != st_.board_dealing_count * self.nb:
            out.append(f'board cards {self.board} of'
                       f' {st_.board_dealing_count * self.nb}')
        for i, lv in enumerate(self.live):
            got = self.hole[i]
            if not lv:
                if got:
                    out.append(f'folded player {i} was dealt {got}')
                continue
            if st_.draw_status:
                if i not in self.discards:
                    out.append(f'player {i} has not stood pat/discarded')
                    continue
                want = list(self.discards[i])
            else:
                want = list(st_.hole_dealing_statuses)
            if got != want:
                out.append(f'player {i} got facings {got}, prescribed {want}')
        return out


class M(Hooks):
    def __init__(self, cfg, stats):
        self.cfg = cfg
        self.stats = stats
        self.viol = []
        self.inst = None
        self.prev = None
        self.last_done = None
        self.flags = set()
        self.instances = 0
        self.auto_hole = bool(cfg['autos'] >> 4 & 1)
        self.dealt_streets = set()
        self.fallback_streets = set()

    def v(self, kind, key, msg):
        if not self.viol:
            self.viol.append(V(ID, kind, key, msg))

    def snap(self, s):
        return dict(live=list(s.statuses),
                    avail=len(s.deck_cards) + reserve_count(s),
                    facing=[list(x) for x in s.hole_card_statuses],
                    hole=[list(x) for x in s.hole_cards])

    def close(self, s, why):
        inst = self.inst
        if inst is None:
            return
        miss = inst.missing()
        if miss:
            self.v('street_incomplete', why,
                   f'street {inst.si} ({inst.street}) left with {miss} when'
                   f' {why}; live at start {inst.live}; fall-back'
                   f' {inst.fallback}')
        else:
            self.last_done = inst.si
            if inst.fallback:
                self.flags.add('fallback_to_board')
            if not all(inst.live):
                self.flags.add('fold_before_street')
            if any(self.inst.discards.get(i) for i in inst.discards):
                self.flags.add('draw_with_discard')
            if inst.nb > 1:
                self.flags.add('multi_board')
            if self.auto_hole and not inst.street.draw_status \
                    and not inst.fallback and inst.order:
                nh = len(inst.street.hole_dealing_statuses)
                lv = [i for i, x in enumerate(inst.live) if x]
                want = [i for _ in range(nh) for i in lv]
                if inst.order != want:
                    self.v('automated_dealing_order', '',
                           f'street {inst.si}: dealees {inst.order},'
                           f' round-robin would be {want}')
            if self.auto_hole and inst.street.draw_status and inst.order:
                if inst.order != sorted(inst.order):
                    self.v('automated_dealing_order', 'draw',
                           f'street {inst.si}: dealees {inst.order}')
        self.inst = None

    def observe(self, s, op):
        prev = self.prev
        self.prev = self.snap(s)
        if op is None or self.viol:
            return
        k = op_kind(op)
        # a card keeps its facing until its owner tables it
        if prev is not None:
            for i in s.player_indices:
                if k == 'show_or_muck_hole_cards' and op.player_index == i:
                    continue
                before = {c: f for c, f in zip(prev['hole'][i],
                                                prev['facing'][i]) if c}
                if len(s.hole_cards[i]) != len(s.hole_card_statuses[i]):
                    self.v('facing_list_out_of_step', k,
                           f'player {i}: {s.hole_cards[i]} vs'
                           f' {s.hole_card_statuses[i]} after {op!r}')
                    return
                for c, f in zip(s.hole_cards[i], s.hole_card_statuses[i]):
                    if c and c in before and before[c] != f:
                        self.v('kept_card_changed_facing', k,
                               f'player {i}: {c!r} was'
                               f' {"up" if before[c] else "down"} and is'
                               f' {"up" if f else "down"} after {op!r}')
                        return
        if k in DEAL and s.street_index is not None:
            self.dealt_streets.add(s.street_index)
        if k == 'deal_board' and s.street is not None and \
                s.street.hole_dealing_statuses and \
                s.street.board_dealing_count:
            # a custom street that prescribes hole cards and community cards
            # at once: where its fall-back card belongs is not specified
            # (section 9.2, fall-back boards) - not judged from here on
            self.mixed_street_boards = True
        if k == 'deal_board' and not getattr(self, 'mixed_street_boards',
                                             False):
            # a community card lies on (at least) one board
            lying = [c for row in s.board_cards for c in row]
            seen = [c for b in s.board_indices for c in s.get_board_cards(b)]
            lost = [c for c in lying if c not in seen]
            if lost:
                two = sum(1 for i, st_ in enumerate(s.streets)
                          if not st_.board_dealing_count
                          and i in self.fallback_streets) >= 1
                self.v('community_card_on_no_board',
                       'second_fallback_street' if two else '',
                       f'{op!r}: {lost} lie in board_cards {s.board_cards}'
                       f' but on none of the boards'
                       f' {[list(s.get_board_cards(b)) for b in s.board_indices]}')
                return
            if s.street is not None and not s.street.board_dealing_count:
                self.fallback_streets.add(s.street_index)
        if k not in DEAL:
            self.close(s, f'{type(op).__name__}')
            if k in BETTING and self.last_done != s.street_index \
                    and s.street_index is not None:
                self.v('betting_before_dealing', '',
                       f'{op!r} on street {s.street_index} but the last'
                       f' completely dealt street is {self.last_done}')
            return
        if self.inst is not None and self.inst.requirement_met():
            self.close(s, 'next street instance')
        if self.inst is None:
            if s.street_index is None or prev is None:
                self.v('dealing_outside_street', k, repr(op))
                return
            self.inst = Inst(s.street_index, s.street, prev['live'],
                             prev['avail'], s.starting_board_count,
                             prev['facing'])
            self.instances += 1
        inst = self.inst
        st_ = inst.street
        if k == 'burn_card':
            inst.burns += 1
            if not st_.card_burning_status or inst.burns > 1:
                self.v('unprescribed_burn', '',
                       f'{op!r} on street {inst.si} ({st_})')
            if st_.draw_status and any(
                    lv and i not in inst.discards
                    for i, lv in enumerate(inst.live)):
                self.v('burn_before_draws_done', '', repr(op))
        elif k == 'deal_hole':
            if st_.card_burning_status and not inst.burns:
                self.v('deal_before_burn', 'hole', repr(op))
            if inst.fallback:
                # decided on the counts before the street: the live players'
                # cards exceed deck + known reserve, so the street is dealt
                # as shared board cards and nobody receives a hole card
                self.v('hole_dealt_despite_fallback', '',
                       f'{op!r} on street {inst.si}: {sum(inst.live)} live'
                       f' players x {len(st_.hole_dealing_statuses)} card(s)'
                       ' exceed the cards that were available')
            inst.hole[op.player_index].extend(op.statuses)
            inst.order.extend([op.player_index] * len(op.cards))
            if len(op.cards) != len(op.statuses):
                self.v('record_shape', '', repr(op))
        elif k == 'deal_board':
            if st_.card_burning_status and not inst.burns:
                self.v('deal_before_burn', 'board', repr(op))
            inst.board += len(op.cards)
            if inst.nb > 1 and not inst.fallback:
                # several boards are filled one after the other: a board
                # receives this street's cards only once the boards before it
                # have all of theirs
                try:
                    same = s.board_count == s.starting_board_count
                    lens = [len(list(s.get_board_cards(j)))
                            for j in s.board_indices] if same else None
                except Exception as e:  # noqa: BLE001
                    from ..engine import is_engine_exception
                    if not is_engine_exception(e):
                        raise
                    lens = None
                if lens:
                    before = sum(x.board_dealing_count
                                 for x in s.streets[:inst.si])
                    full = before + st_.board_dealing_count
                    shape_ok = all(before <= x <= full for x in lens) and \
                        all(lens[j] == full or all(
                            y == before for y in lens[j + 1:])
                            for j in range(len(lens)))
                    if not shape_ok:
                        self.v('boards_not_filled_in_order', '',
                               f'after {op!r} the boards hold {lens} cards'
                               f' ({before} before this street, {full} when'
                               f' it is complete)')
        elif k == 'stand_pat_or_discard':
            i = op.player_index
            if not st_.draw_status:
                self.v('draw_outside_draw_street', '', repr(op))
                return
            if i in inst.discards:
                self.v('drew_twice', '', repr(op))
            held = list(prev['hole'][i])
            facing = list(prev['facing'][i])
            fs = []
            for c in op.cards:
                if c not in held:
                    self.v('discarded_card_not_held', '', repr(op))
                    return
                j = held.index(c)
                fs.append(facing[j])
                held.pop(j)
                facing.pop(j)
            inst.discards[i] = fs

    def after(self, it, kind, args, result):
        # a card dealt to a named player goes to that player
        if kind == 'deal_hole' and len(args) == 2 and args[1] is not None \
                and getattr(result, 'player_index', None) != args[1]:
            self.v('named_dealee_ignored', '',
                   f'deal_hole{args!r} dealt to player'
                   f' {getattr(result, "player_index", None)}: {result!r}')

        # the cards a player asks to discard are the cards he discards, in
        # whatever documented form (text, list, iterator, generator) he
        # names them
        if kind == 'stand_pat_or_discard' and args and \
                isinstance(args[0], tuple):
            asked = sorted(map(repr, args[0]))
            done = sorted(map(repr, getattr(result, 'cards', ())))
            if it.cfg.get('arg_form'):
                self.flags.add('discards_given_as_' + it.cfg['arg_form'])
            if asked != done:
                self.v('discard_request_ignored', it.cfg.get('arg_form') or
                       'tuple',
                       f'asked to discard {asked} (given as'
                       f' {it.cfg.get("arg_form") or "tuple"}), the'
                       f' operation discarded {done}: {result!r}')

    def quiescent(self, it):
        if self.viol:
            return
        s = it.state
        inst = self.inst
        if inst is not None and not inst.requirement_met():
            q = [s.can_fold(), s.can_check_or_call(), s.can_post_bring_in(),
                 s.can_complete_bet_or_raise_to()]
            if any(q) or s.actor_index is not None:
                self.v('betting_while_dealing_pending', '',
                       f'street {inst.si} still owes {inst.missing()} but'
                       f' betting queries are {q}, actor {s.actor_index}')
        elif s.actor_index is not None and s.street_index is not None:
            # cumulative facts at a betting decision
            nb_cards = 0
            for si in range(s.street_index + 1):
                nb_cards += s.streets[si].board_dealing_count
            # (fall-back streets add to boards and are covered per instance)
            if not self.flags & {'fallback_to_board'} and nb_cards and \
                    not (inst is not None and inst.fallback):
                # each board - not only all boards together - holds exactly
                # the community cards prescribed so far
                try:
                    per = [len(list(s.get_board_cards(j)))
                           for j in s.board_indices]
                except Exception as e:  # noqa: BLE001
                    from ..engine import is_engine_exception
                    if not is_engine_exception(e):
                        raise
                    per = None
                    self.v('board_accessor_raised', '', repr(e))
                if per is not None and any(x != nb_cards for x in per):
                    self.v('board_incomplete_at_betting', '',
                           f'street {s.street_index}: boards hold {per}'
                           f' cards, {nb_cards} prescribed so far;'
                           f' board_cards {s.board_cards}')


def budget(tier):
    if tier == 'quick':
        return dict(examples=6000, wall=100)
    return dict(examples=120000, wall=1500)


def _manual_showdown(case):
    # unknown hole cards cannot be tabled by the automation (outside the
    # stated domain): the players table explicit cards themselves
    case['config']['autos'] &= ~(1 << 7)
    if case['config']['deck_seed'] % 4:
        # the recorder deals and burns by hand (placeholders only get into
        # the piles that way)
        case['config']['autos'] &= ~((1 << 3) | (1 << 4))
    return case


@st.composite
def nine_handed_stud(draw):
    """Constructed region: a nine-handed stud table where nobody (or hardly
    anybody) folds: the deck covers neither sixth nor seventh street, so two
    streets in a row fall back to a shared card."""
    game = draw(st.sampled_from(['F7S', 'F7S8', 'FR']))
    n = 9
    tape = draw(st.lists(st.sampled_from([0, 0, 0, 0, 0, 5, 40]),
                         max_size=60))
    cfg = dict(
        game=game, custom=None, n=n, mode=draw(st.sampled_from(['C', 'T'])),
        autos=draw(st.sampled_from([2047, 2047, 2047 & ~(1 << 4),
                                    2047 & ~(1 << 5)])),
        boards=1, trim=True, antes=[1] * n, blinds=[0] * n, bring_in=1,
        sb=2, bb=4, stacks=[200] * n, chip='int', rake=None,
        divmod='default', deck_seed=draw(st.integers(0, 10 ** 6)),
        profile=0, strict=False, unknown=False, rig=None,
    )
    return {'config': cfg, 'tape': tape}


def strategy(tier):
    common = dict(unknown=False, tape_size=110, rake=False, divmods=False,
                  chips=('int',))
    return st.one_of(
        nine_handed_stud(),
        gen.cases(profiles=(0, 4, 5, 3), **common),
        gen.cases(profiles=(5, 0, 4), min_players=6,
                  games=('F7S', 'F7S8', 'FR', 'NR', 'F2L3D', 'FB'), **common),
        gen.cases(profiles=(3, 0, 4), games=('F7S', 'FR', 'F2L3D', 'FB',
                                             'N2L1D', 'F7S8'), **common),
        gen.cases(profiles=(2, 5), short_bias=True, modes=('C',),
                  games=('NT', 'PO', 'NS', 'FT', 'FO8', 'NR'), **common),
        # full stud tables with unknown down cards and unknown burns: the
        # placeholders lie in the reserve piles when the deck runs short
        gen.cases(profiles=(5, 6, 5, 0), min_players=8,
                  games=('F7S', 'F7S8', 'FR'), custom=False,
                  **dict(common, unknown='heavy')).map(_manual_showdown),
        # custom streets that prescribe a hole card and a community card,
        # full tables: the fall-back meets a street with its own board
        gen.cases(games=(), custom=True, custom_families=('mixed',),
                  min_players=7, profiles=(5, 6, 0), boards=(1, 1, 2),
                  **common),
    )


def check(case, stats):
    cfg = case['config']
    m = M(cfg, stats)
    res = run_case(case, hooks=m, observers=(m.observe,))
    stats.count('outcome:' + str(res.outcome))
    if res.outcome == 'discard':
        # the deck ran out later on; what the model saw before that stands
        # when it does not depend on the rest of the hand
        return [v for v in m.viol if v.kind == 'hole_dealt_despite_fallback']
    out = list(m.viol)
    if res.outcome in ('crash', 'hang', 'runaway') and not out:
        out.append(V(ID, 'engine_crash', exc_key(res.exc),
                     f'{type(res.exc).__name__}: {res.exc}'))
    if res.state is None:
        return out
    if res.outcome == 'done' and not out:
        m.close(res.state, 'hand over')
        out = list(m.viol)
    s = res.state
    if res.outcome == 'done' and not out and not s.status:
        # a hand that is contested to the end goes through every street of
        # the definition, however the street objects were written down
        folds = sum(1 for o in s.operations
                    if op_kind(o) == 'fold'
                    or (op_kind(o) == 'show_or_muck_hole_cards'
                        and not o.hole_cards))
        want = set(range(len(s.streets)))
        if folds < s.player_count - 1 and m.dealt_streets != want:
            out.append(V(ID, 'streets_skipped', '',
                         f'contested to the end but nothing was dealt on'
                         f' street(s) {sorted(want - m.dealt_streets)} of'
                         f' {len(s.streets)}; shared street objects:'
                         f' {len(set(map(id, s.streets))) < len(s.streets)}'))
        if len(set(map(id, s.streets))) < len(s.streets):
            m.flags.add('street_object_used_twice')
    stats.count('street_instances', m.instances)
    for f in m.flags:
        stats.count('class:' + f)
    stats.count('game:' + cfg['game'])
    nontrivial = bool(m.flags)
    if nontrivial:
        stats.count('nontrivial')
        stats.mark_nontrivial((sorted(cfg.items(), key=str),
                               tuple(map(repr, res.state.operations))))
    stats.sample(dict(config=cfg, flags=sorted(m.flags),
                      operations=describe_ops(res.state, 50)), nontrivial)
    return out
