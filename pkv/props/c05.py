"""C05 - the hand made from hole and board cards is the best one allowed.

Oracle: brute force over the legal combinations of the game's composition
rule with the reference evaluator; the engine's result must have the maximal
reference key, and report "no hand" exactly when no legal combination exists.
"""
from __future__ import annotations

from hypothesis import strategies as st

from .. import refeval
from ..runner import V
from ..engine import is_engine_exception as _is_engine_exception

import pokerkit

ID = 'C05'
RULE = (
    'inputs = (hand class, hole cards, board cards): 13 classes; 0-7 hole and'
    ' 0-5 board distinct cards of the class deck within the admissible shapes'
    ' (Greek: exactly 2 hole; Omaha: 0-6 hole; Kuhn: 1 hole, 0-1 board),'
    ' boosted patterns (low-heavy, suited, paired boards, rank-restricted'
    ' pools). Oracle: brute force over the legal combinations with the'
    ' reference evaluator: key(result) == max key; from_game_or_none is None'
    ' <=> no legal combination; from_game raises ValueError exactly then; the'
    ' returned hand uses only the given cards and respects the composition'
    ' rule. Non-trivial = >=2 legal combinations with different keys, or the'
    ' "none" outcome; distinct = distinct inputs.'
)
ASSUMPTIONS = ['cards are distinct known cards of the class deck']

RANKS = '23456789TJQKA'
SUITS = 'cdhs'
DECK52 = [r + s for r in RANKS for s in SUITS]
DECK36 = [r + s for r in '6789TJQKA' for s in SUITS]
LOWS = [r + s for r in 'A2345678' for s in SUITS]
CLASSES = list(refeval.BASE)


@st.composite
def c05_case(draw):
    cname = draw(st.sampled_from(CLASSES))
    base = refeval.BASE[cname]
    if base == 'kuhn':
        cards = draw(st.permutations(['Js', 'Qs', 'Ks']))
        nh = draw(st.integers(0, 1))
        nb = draw(st.integers(0, 1))
        return dict(cls=cname, hole=list(cards[:nh]),
                    board=list(cards[nh:nh + nb]),
                    hole_form=draw(st.sampled_from(['str', 'tuple', 'gen'])),
                    board_form=draw(st.sampled_from(['str', 'list', 'iter'])))
    if base == 'short_deck':
        pool = DECK36
    else:
        pool = DECK52
    style = draw(st.integers(0, 5))
    if style == 1 and base != 'short_deck':
        pool = LOWS + draw(st.lists(st.sampled_from(DECK52), max_size=6))
        pool = list(dict.fromkeys(pool))
    elif style == 2:
        s = draw(st.sampled_from(SUITS))
        pool = [c for c in pool if c[1] == s] + draw(
            st.lists(st.sampled_from(pool), max_size=8))
        pool = list(dict.fromkeys(pool))
    elif style == 3:
        rs_ = draw(st.lists(st.sampled_from(sorted({c[0] for c in pool})),
                            min_size=3, max_size=5, unique=True))
        pool = [c for c in pool if c[0] in rs_]
    twin = None
    if cname in ('OmahaHoldemHand', 'OmahaEightOrBetterLowHand') and \
            draw(st.integers(0, 7)) == 0:
        # the same two ranks suited twice (AsKs AhKh) with a board heavy in
        # one of the two suits: equal-looking hole pairs are not equivalent
        r1, r2 = draw(st.lists(st.sampled_from('23456789TJQKA'), min_size=2,
                               max_size=2, unique=True))
        s1, s2 = draw(st.lists(st.sampled_from(SUITS), min_size=2,
                               max_size=2, unique=True))
        twin = [r1 + s1, r2 + s1, r1 + s2, r2 + s2]
        suited = [c for c in DECK52 if c[1] == s2 and c not in twin]
        rest = [c for c in DECK52 if c not in twin]
        k = draw(st.integers(3, 5))
        board = draw(st.lists(st.sampled_from(suited), min_size=3,
                              max_size=k, unique=True))
        while len(board) < k:
            c = draw(st.sampled_from(rest))
            if c not in board:
                board.append(c)
        forms = ['str', 'str', 'spaced', 'tuple', 'list', 'iter', 'gen']
        return dict(cls=cname, hole=draw(st.permutations(twin)),
                    board=draw(st.permutations(board)),
                    hole_form=draw(st.sampled_from(forms)),
                    board_form=draw(st.sampled_from(forms)))
    if cname == 'GreekHoldemHand':
        nh = 2
    elif cname in ('OmahaHoldemHand', 'OmahaEightOrBetterLowHand'):
        nh = draw(st.sampled_from([0, 1, 2, 3, 4, 4, 4, 5, 6]))
    elif base in ('badugi', 'standard_badugi'):
        nh = draw(st.integers(0, 6))
    else:
        nh = draw(st.integers(0, 7))
    if base in ('badugi', 'standard_badugi'):
        nb = draw(st.sampled_from([0, 0, 0, 1, 2]))
    else:
        nb = draw(st.sampled_from([0, 3, 4, 5, 5, 5, 1, 2]))
    n = min(nh + nb, len(pool))
    cards = draw(st.lists(st.sampled_from(pool), min_size=n, max_size=n,
                          unique=True))
    nh = min(nh, len(cards))
    if cname == 'GreekHoldemHand' and nh != 2:
        cards = draw(st.lists(st.sampled_from(DECK52), min_size=2 + nb,
                              max_size=2 + nb, unique=True))
        nh = 2
    forms = ['str', 'str', 'spaced', 'tuple', 'list', 'iter', 'gen']
    return dict(cls=cname, hole=cards[:nh], board=cards[nh:],
                hole_form=draw(st.sampled_from(forms)),
                board_form=draw(st.sampled_from(forms)))


def env_digest(case):
    """What the two entry points answer for one case, as text (compared
    between interpreter processes by pkv/envrun.py)."""
    cls = getattr(pokerkit, case['cls'])
    hs, bs = ''.join(case['hole']), ''.join(case['board'])
    out = []
    for f in (cls.from_game_or_none, cls.from_game):
        try:
            out.append(repr(f(hs, bs)))
        except ValueError:
            out.append('ValueError')
        except Exception as e:  # noqa: BLE001
            out.append('exc:' + type(e).__name__)
    return '|'.join(out)


def extra(tier, seed, stats):
    """The evaluation does not depend on how the interpreter was started:
    the same inputs give the same answers under ``python -O`` (where
    ``__debug__`` is False) and under another PYTHONHASHSEED."""
    from ..envrun import digests_here, digests_in
    from ..fuzz import build_pool
    import sys as _sys

    class _M:
        @staticmethod
        def strategy(t):
            return c05_case()

    n = 600 if tier == 'quick' else 6000
    pool = build_pool(_M, tier, 104729 * (seed + 1), n)
    here = digests_here(ID, pool)
    viols = []
    for label, kw in (('python -O', dict(optimize=True)),
                      ('PYTHONHASHSEED=1', dict(hash_seed=1))):
        there = digests_in(ID, pool, **kw)
        for c, a, b in zip(pool, here, there):
            if a != b:
                viols.append((V(ID, 'depends_on_interpreter_mode', label,
                                f'{c["cls"]} hole {"".join(c["hole"])} board'
                                f' {"".join(c["board"])}: {a} here, {b}'
                                f' under {label}'),
                              dict(c, kind='env', env=label)))
                break
    return viols, dict(evaluations=3 * len(pool), distinct_nontrivial=0,
                       interpreter_modes=['default', 'python -O',
                                          'PYTHONHASHSEED=1'])


def budget(tier):
    if tier == 'quick':
        return dict(examples=80000, wall=90)
    return dict(examples=600000, wall=1200)


def strategy(tier):
    return c05_case()


def check(case, stats):
    if case.get('kind') == 'env':
        from ..envrun import digests_here, digests_in
        one = {k: v for k, v in case.items() if k not in ('kind', 'env')}
        a = digests_here(ID, [one])[0]
        kw = dict(optimize=True) if case.get('env') == 'python -O' \
            else dict(hash_seed=1)
        b = digests_in(ID, [one], **kw)[0]
        if a != b:
            return [V(ID, 'depends_on_interpreter_mode', case.get('env'),
                      f'{a} here, {b} under {case.get("env")}')]
        return []
    cname = case['cls']
    cls = getattr(pokerkit, cname)
    hole, board = case['hole'], case['board']
    hp = [(c[0], c[1]) for c in hole]
    bp = [(c[0], c[1]) for c in board]
    want = refeval.best(cname, hp, bp)
    out = []
    hs, bs = ''.join(hole), ''.join(board)
    hf, bf = case.get('hole_form'), case.get('board_form')
    from .c04 import as_form

    def args():
        # fresh objects for every call (iterators are one-shot)
        return as_form(hole, hf), as_form(board, bf)

    try:
        got_none = cls.from_game_or_none(*args())
    except Exception as e:  # noqa: BLE001
        if not _is_engine_exception(e):
            raise     # harness fault: exit 2
        out.append(V(ID, 'from_game_or_none_raised', cname,
                     f'{cname}.from_game_or_none({hs!r},{bs!r}) raised'
                     f' {e!r}'))
        return out
    try:
        got = cls.from_game(*args())
        raised = None
    except ValueError as e:
        got = None
        raised = e
    except Exception as e:  # noqa: BLE001
        if not _is_engine_exception(e):
            raise     # harness fault: exit 2
        out.append(V(ID, 'from_game_wrong_exception', cname,
                     f'{cname}.from_game({hs!r},{bs!r}) raised {e!r}'
                     ' (ValueError expected when no hand exists)'))
        return out
    desc = (f'{cname}.from_game({hs!r} as {hf or "str"}, {bs!r} as'
            f' {bf or "str"})')
    if want is None:
        if got is not None or got_none is not None:
            out.append(V(ID, 'hand_reported_but_none_legal', cname,
                         f'{desc} = {got!r}, but no legal combination'
                         ' exists'))
    else:
        if got is None or got_none is None:
            out.append(V(ID, 'no_hand_but_legal_exists', cname,
                         f'{desc} reported no hand ({raised!r}) but a legal'
                         f' combination with key {want} exists'))
        else:
            for g in (got, got_none):
                gc = [(str(c.rank.value), str(c.suit.value)) for c in g.cards]
                k = refeval.key(cname, gc)
                if k != want:
                    out.append(V(ID, 'not_best', cname,
                                 f'{desc} = {g!r} (key {k}), best legal key'
                                 f' is {want}'))
                    break
                # composition rule: only given cards, right hole/board split
                nh = sum(1 for c in gc if c in hp)
                nb = sum(1 for c in gc if c in bp)
                if nh + nb != len(gc):
                    out.append(V(ID, 'foreign_card', cname,
                                 f'{desc} = {g!r} uses a card not given'))
                    break
                if cname in ('OmahaHoldemHand', 'OmahaEightOrBetterLowHand',
                             'GreekHoldemHand') and (nh, nb) != (2, 3):
                    out.append(V(ID, 'composition', cname,
                                 f'{desc} = {g!r} uses {nh} hole + {nb}'
                                 ' board cards'))
                    break
            if got == got_none:
                pass
            else:
                out.append(V(ID, 'from_game_variants_differ', cname,
                             f'{desc}: from_game {got!r} != from_game_or_none'
                             f' {got_none!r}'))
    # the street-by-street loop of a caller: one board list, grown in place
    # between two evaluations - the second answer is the answer for the
    # cards the list holds then
    if len(board) >= 2 and not any('?' in c for c in hole + board):
        from pokerkit import Card
        cut = 1 + (len(hole) + len(board)) % (len(board) - 1)
        objs = list(Card.parse(bs))
        buf = objs[:cut]
        try:
            cls.from_game_or_none(hs, buf)
            buf.extend(objs[cut:])
            grown = cls.from_game_or_none(hs, buf)
        except Exception as e:  # noqa: BLE001
            if not _is_engine_exception(e):
                raise     # harness fault: exit 2
            grown = e
        stats.count('class:board_list_grown_in_place')
        if isinstance(grown, Exception) or grown != got_none:
            out.append(V(ID, 'answer_depends_on_earlier_call', cname,
                         f'{cname}.from_game_or_none({hs!r}, board list) with'
                         f' the list grown from {cut} to {len(objs)} cards'
                         f' in place gives {grown!r}, a fresh call'
                         f' {got_none!r}'))
    # non-triviality: >= 2 legal combos with different keys, or none
    nontrivial = want is None
    if want is not None:
        keys = set()
        from itertools import combinations
        base = refeval.BASE[cname]
        if cname in ('OmahaHoldemHand', 'OmahaEightOrBetterLowHand'):
            gen_ = (list(h) + list(b) for h in combinations(hp, 2)
                    for b in combinations(bp, 3))
        elif cname == 'GreekHoldemHand':
            gen_ = (hp + list(b) for b in combinations(bp, 3))
        elif base in ('badugi', 'standard_badugi'):
            gen_ = (list(c) for k in (1, 2, 3, 4)
                    for c in combinations(hp + bp, k))
        elif base == 'kuhn':
            gen_ = ([c] for c in hp + bp)
        else:
            gen_ = (list(c) for c in combinations(hp + bp, 5))
        for cs in gen_:
            k = refeval.key(cname, cs)
            if k is not None:
                keys.add(k)
                if len(keys) >= 2:
                    nontrivial = True
                    break
    stats.count('cls:' + cname)
    stats.count(f'forms:{hf or "str"}/{bf or "str"}')
    stats.count('outcome:' + ('none' if want is None else 'hand'))
    if nontrivial:
        stats.count('nontrivial')
        stats.mark_nontrivial((cname, tuple(hole), tuple(board)))
    stats.sample(dict(hand_class=cname, hole=hs, board=bs,
                      best_key=want, engine=repr(got)), nontrivial)
    return out
