"""C03 - betting follows the rules: whose turn, which actions, which amounts.

A reference model of the betting round (pkv/refbet.py) is run alongside
generated hands.  At every betting decision the engine's actor, its action
queries, the call amount, the bring-in amount, the three raise-to amounts and
the acceptance of a set of probe amounts (below, at, between and above the
bounds) are compared with the model, in both directions; the model also says
when the round must end.
"""
from __future__ import annotations

from hypothesis import strategies as st

from .. import gen
from ..engine import (
    Hooks,
    chip_unit,
    describe_ops,
    exc_key,
    op_kind,
    run_case,
)
from ..refbet import Round
from ..runner import V
from .c08 import _amounts

ID = 'C03'
RULE = (
    'cases = (config, tape) over all variants/structures/modes, layouts'
    ' biased to what the rules depend on (short all-in raises, capped'
    ' fixed-limit rounds, straddles, bring-in/complete, heads-up); at every'
    ' betting decision the engine is compared with a reference model of the'
    ' round fed only with public facts and the round\'s actions: actor ='
    ' turn, fold/check-call/bring-in availability (both warning regimes),'
    ' call and bring-in amounts, min/pot/max raise-to, and acceptance of'
    ' probe amounts {None, 0, -1, min-1, min, min+1, mid, pot-1, pot, pot+1,'
    ' max-1, max, max+1, stack+bet, stack+bet+1}; round end. Non-trivial ='
    ' decision with a raise available and min < max, or decided by the short'
    ' all-in rule, the cap, "nobody can call more", or a pending completion;'
    ' distinct = distinct (config, log prefix) decisions.'
)
ASSUMPTIONS = [
    'the first actor of each round is taken from the engine (C13 decides it)',
    'stacks/bets/statuses are read from the public attributes (C01 decides'
    ' their accounting)',
]


class Model(Hooks):
    def __init__(self, cfg, stats, params=None, prop=None):
        self.params = params      # optional (state) -> (min, cap, structure)
        self.prop = prop or ID
        self.cfg = cfg
        self.stats = stats
        self.viol = []
        self.known = []     # hits of the listed finding R3 (search goes on)
        self.round = None
        self.unit = chip_unit(cfg)
        self.decisions = 0
        self.strict = bool(cfg.get('strict'))
        self.flags = set()

    def v(self, kind, key, msg):
        if not self.viol:
            self.viol.append(V(self.prop, kind, key, msg))

    # observer: every operation, also the automated ones
    def observe(self, s, op):
        if op is None or self.viol:
            return
        k = op_kind(op)
        r = self.round
        if k not in ('fold', 'check_or_call', 'post_bring_in',
                     'complete_bet_or_raise_to'):
            if r is not None:
                if r.actor is not None:
                    self.v('round_ended_early', k,
                           f'{op!r} although player {r.actor} must still'
                           f' act (bets {r.bets}, stacks {r.stacks})')
                self.round = None
            return
        if r is None:
            # a betting op we did not see coming (cannot happen: decisions
            # are only taken at quiescent states where the model is built)
            return
        if r.actor != op.player_index:
            self.v('wrong_actor', k,
                   f'{op!r} but the rules give the turn to {r.actor}')
            self.round = None
            return
        if k == 'fold':
            r.fold()
        elif k == 'check_or_call':
            amt = r.check_or_call()
            if amt != op.amount:
                self.v('call_amount', '',
                       f'{op!r} but min(stack, to call) = {amt}')
        elif k == 'post_bring_in':
            amt = r.post_bring_in()
            if amt != op.amount:
                self.v('bring_in_amount', '', f'{op!r} expected {amt}')
        else:
            if r.reopening_undecided():
                # not judged (limit play): follow the engine
                r.answered.pop(r.actor, None)
            if not r.accepts(op.amount):
                self.v('illegal_raise_performed', '',
                       f'{op!r}: refusal reason {r.raise_refusal()},'
                       f' bounds [{r.min_raise_to() if r.actor is not None else None},'
                       f' {r.max_raise_to() if r.actor is not None else None}]')
                self.round = None
                return
            r.raise_to(op.amount)

    def quiescent(self, it):
        if self.viol:
            return
        s = it.state
        a = s.actor_index
        r = self.round
        if a is None:
            if r is not None:
                if r.actor is not None and s.status:
                    self.v('round_ended_early', 'quiescent',
                           f'no actor although player {r.actor} must still'
                           f' act; bets {s.bets} stacks {s.stacks}')
                self.round = None
            return
        if r is None:
            street = s.street
            if self.params is not None:
                smin, cap, structure = self.params(s)
            else:
                smin = street.min_completion_betting_or_raising_amount
                cap = street.max_completion_betting_or_raising_count
                structure = s.betting_structure.name
            r = Round(
                n=s.player_count, live=s.statuses, stacks=s.stacks,
                bets=s.bets, first_actor=a,
                street_min=smin,
                cap=cap,
                structure=structure,
                bring_in=s.bring_in,
                first_street=s.street_index == 0,
                mode=self.cfg['mode'],
                total_chips=sum(s.starting_stacks),
                # what the players have put in so far (a stack may be
                # math.inf, "not mentioned")
                pot0=-sum(s.payoffs),
            )
            self.round = r
            self.stats.count('rounds')
        where = (f'after {len(s.operations)} operations; bets {s.bets}'
                 f' stacks {s.stacks} statuses {s.statuses}')
        if r.actor != a:
            self.v('wrong_actor', 'quiescent',
                   f'engine actor {a}, rules say {r.actor}; {where}')
            self.round = None
            return
        if s.turn_index != a:
            self.v('turn_index', '', f'turn_index {s.turn_index} != actor {a}')
            return
        if list(r.bets) != list(s.bets) or list(r.stacks) != list(s.stacks):
            self.v('model_state', '',
                   f'model bets/stacks {r.bets}/{r.stacks} vs engine; {where}')
            self.round = None
            return
        self.decisions += 1
        # fold
        fs = r.fold_status()
        want_fold = fs == 'yes' or (fs == 'warn' and not self.strict)
        if s.can_fold() != want_fold:
            self.v('fold_availability', fs,
                   f'can_fold()={s.can_fold()} but rules say {fs}'
                   f' (mode {self.cfg["mode"]}, strict={self.strict});'
                   f' {where}')
            return
        # check/call
        if s.can_check_or_call() != r.can_check_or_call():
            self.v('check_call_availability', '',
                   f'can_check_or_call()={s.can_check_or_call()}; {where}')
            return
        if r.can_check_or_call():
            if s.checking_or_calling_amount != r.to_call:
                self.v('call_amount', 'query',
                       f'checking_or_calling_amount='
                       f'{s.checking_or_calling_amount} rules {r.to_call};'
                       f' {where}')
                return
        # bring-in
        if s.can_post_bring_in() != r.can_post_bring_in():
            self.v('bring_in_availability', '',
                   f'can_post_bring_in()={s.can_post_bring_in()}; {where}')
            return
        if r.can_post_bring_in():
            self.flags.add('bring_in_pending')
            if s.effective_bring_in_amount != r.bring_in_amount():
                self.v('bring_in_amount', 'query',
                       f'{s.effective_bring_in_amount} vs'
                       f' {r.bring_in_amount()}')
                return
        # raise
        if r.reopening_undecided():
            self.flags.add('limit_short_all_in_not_judged')
            return
        refusal = r.raise_refusal()
        lo = s.min_completion_betting_or_raising_to_amount
        hi = s.max_completion_betting_or_raising_to_amount
        pot = s.pot_completion_betting_or_raising_to_amount
        if refusal is None:
            want = (r.min_raise_to(), r.pot_raise_to(), r.max_raise_to())
            if (lo, pot, hi) != want:
                self.v('raise_bounds', s.betting_structure.name,
                       f'engine (min, pot, max)=({lo}, {pot}, {hi}) rules'
                       f' {want}; largest raise {r.largest}, street min'
                       f' {r.street_min}, completion pending'
                       f' {r.completion_pending}; {where}')
                return
            if want[0] < want[2]:
                self.flags.add('raise_min_lt_max')
            if r.completion_pending:
                self.flags.add('completion_pending')
        else:
            self.flags.add('refusal:' + refusal)
        if r.short_since_full and r.actor in r.answered:
            grown = max(r.bets) - r.answered[r.actor]
            self.flags.add('short_all_in_sum_' + (
                'below' if grown < r.full_raise() else
                'equals' if grown == r.full_raise() else 'above')
                + '_full_raise')
            if r.largest < r.street_min:
                self.flags.add('short_all_in_is_first_wager')
            if r.short_since_full >= 2 and grown < sum_short(r):
                self.flags.add('acted_between_all_ins')
        if refusal is not None and refusal.startswith('already acted') \
                and sum_short(r) >= r.full_raise() \
                and s.can_complete_bet_or_raise_to():
            # Listed finding R3: the engine adds up the short all-ins since
            # the last full wager for everybody, the rule books per player -
            # somebody who answered one of them is offered a raise although
            # the wager has grown by less than a full raise since.  Recorded
            # under its own signature; the model then follows the engine so
            # that the rest of the hand is still checked.
            if not self.known:
                self.known.append(V(
                    self.prop, 'raise_acceptance',
                    'reopened_by_sum_of_short_all_ins_for_player_who_'
                    'answered_one_of_them',
                    f'player {a} may raise although the wager grew by'
                    f' {max(r.bets) - r.answered[a]} < {r.full_raise()} since'
                    f' he acted (it grew by {sum_short(r)} since the last'
                    f' full wager); {where}'))
            self.flags.add('known_R3_cumulative_reopening')
            r.answered.pop(a, None)
            return
        for args in _amounts(s, self.unit):
            x = args[0] if args else None
            got = s.can_complete_bet_or_raise_to(*args)
            exp = r.accepts(x)
            if got != exp:
                self.v('raise_acceptance',
                       'accepted_illegal' if got else 'refused_legal',
                       f'can_complete_bet_or_raise_to({x})={got}, rules:'
                       f' {exp} (refusal {refusal}; bounds'
                       f' [{r.min_raise_to()}, {r.max_raise_to()}]); cap'
                       f' {r.cap} count {r.count}; wager each player last'
                       f' answered {dict(sorted(r.answered.items()))},'
                       f' largest raise {r.largest}, street minimum'
                       f' {r.street_min}; {where}')
                return
        self.stats.count('probes', len(_amounts(s, self.unit)))


def sum_short(r):
    """how much the wager has grown since the last full wager"""
    return max(r.bets) - r.full_level


def budget(tier):
    if tier == 'quick':
        return dict(examples=6000, wall=100)
    return dict(examples=100000, wall=1500)


@st.composite
def short_all_in_scenario(draw):
    """Constructed region: a raise, a call, then two or three consecutive
    all-in raises by short stacks whose increments sum to just below, exactly
    or just above the full raise, with action returning to players who have
    already acted (WSOP rule 96)."""
    from ..engine import PROFILES
    game = draw(st.sampled_from(['NT', 'NT', 'PO', 'NS', 'N2L1D']))
    bb = draw(st.sampled_from([2, 4, 10]))
    nshort = draw(st.sampled_from([1, 2, 2, 3]))
    ndeep = draw(st.integers(2, 3))
    n = 2 + ndeep + nshort
    if game == 'N2L1D':
        n = min(n, 7)
    mult = draw(st.sampled_from([1, 1, 2, 3]))
    full = bb * mult                      # the full raise increment
    raise_to = bb + full
    tot = full + draw(st.sampled_from([-1, 0, 0, 0, 1]))
    tot = max(nshort, tot)
    cuts = sorted(draw(st.lists(st.integers(1, max(1, tot - 1)),
                                min_size=nshort - 1, max_size=nshort - 1,
                                unique=nshort - 1 <= max(1, tot - 1))))
    levels = [raise_to + c for c in cuts] + [raise_to + tot]
    deep = [draw(st.sampled_from([40 * bb, 100 * bb])) for _ in range(ndeep)]
    blinds_stacks = [draw(st.sampled_from([40 * bb, 100 * bb, 3 * bb]))
                     for _ in range(2)]
    stacks = (blinds_stacks + deep + levels)[:n]
    profile = draw(st.sampled_from([0, 1, 3]))
    wc = PROFILES[profile][0]
    # first deep player raises (to raise_to), the other deep players call,
    # each short stack moves all-in; then the tape is free
    if mult == 1:
        first = [wc, 0]
    else:
        # raise to an explicit amount: m == 7 draws min + k
        first = [wc, 7, full - bb]
    tape = first + [0] * (ndeep - 1)
    for _ in range(len(stacks) - 2 - ndeep):
        tape += [wc, 2]
    tape += draw(st.lists(st.integers(0, 2 ** 16 - 1), max_size=40))
    cfg = dict(
        game=game, custom=None, n=n, mode=draw(st.sampled_from(['T', 'C'])),
        autos=2047, boards=1, trim=False, antes=[0] * n,
        blinds=[bb // 2, bb] + [0] * (n - 2), bring_in=0, sb=bb, bb=bb,
        stacks=stacks, chip=draw(st.sampled_from(['int', 'int', 'frac'])),
        rake=None, divmod='default',
        deck_seed=draw(st.integers(0, 10 ** 6)), profile=profile,
        strict=draw(st.booleans()), unknown=False, rig=None,
    )
    return {'config': cfg, 'tape': tape}


@st.composite
def acted_between_scenario(draw):
    """Constructed region: A raises, B is all-in for a little more, C calls
    that, D is all-in for a little more again, the blinds call.  The two
    short all-ins together are below, at or above a full raise for A, but C
    only ever faces the second one (WSOP live-action rule 129: "if the
    resulting wager size to a participant qualifies as a raise")."""
    from ..engine import PROFILES
    game = draw(st.sampled_from(['NT', 'NT', 'PO']))
    bb = draw(st.sampled_from([2, 4, 10]))
    mult = draw(st.sampled_from([1, 1, 2, 3]))
    full = bb * mult
    raise_to = bb + full
    s1 = draw(st.integers(1, max(1, full - 1)))
    s2 = draw(st.integers(1, max(1, full - 1)))
    deep = lambda: draw(st.sampled_from([40 * bb, 100 * bb]))  # noqa: E731
    stacks = [deep(), deep(), deep(), raise_to + s1, deep(),
              raise_to + s1 + s2]
    extra = draw(st.integers(0, 2))       # callers behind D
    stacks += [deep() for _ in range(extra)]
    n = len(stacks)
    profile = draw(st.sampled_from([0, 1, 3]))
    wc = PROFILES[profile][0]
    first = [wc, 0] if mult == 1 else [wc, 7, full - bb]
    tape = first + [wc, 2] + [0] + [wc, 2] + [0] * (extra + 2)
    tape += draw(st.lists(st.integers(0, 2 ** 16 - 1), max_size=40))
    cfg = dict(
        game=game, custom=None, n=n, mode=draw(st.sampled_from(['T', 'C'])),
        autos=2047, boards=1, trim=False, antes=[0] * n,
        blinds=[bb // 2, bb] + [0] * (n - 2), bring_in=0, sb=bb, bb=bb,
        stacks=stacks, chip=draw(st.sampled_from(['int', 'int', 'frac'])),
        rake=None, divmod='default',
        deck_seed=draw(st.integers(0, 10 ** 6)), profile=profile,
        strict=draw(st.booleans()), unknown=False, rig=None,
    )
    return {'config': cfg, 'tape': tape}


def strategy(tier):
    common = dict(unknown=False, tape_size=120, rake=False, divmods=False,
                  boards=(1,))
    return st.one_of(
        gen.cases(profiles=(1, 2, 1, 0), short_bias=True, **common),
        gen.cases(profiles=(1, 2, 3, 0), **common),
        gen.cases(profiles=(1, 2), min_players=3, short_bias=True,
                  games=('FT', 'FO8', 'F7S', 'FR', 'F2L3D', 'FB', 'NT', 'PO'),
                  **common),
        short_all_in_scenario(),
        acted_between_scenario(),
        # pot-limit with a rake: the pot a player may bet includes the chips
        # already raked off it (they are on the table until the hand ends)
        gen.cases(profiles=(1, 2, 5), games=('PO',), custom=True,
                  **dict(common, rake=True)),
    )


def check(case, stats):
    cfg = case['config']
    m = Model(cfg, stats)
    res = run_case(case, hooks=m, observers=(m.observe,))
    stats.count('outcome:' + str(res.outcome))
    if res.outcome == 'discard':
        return []
    out = list(m.viol) or list(m.known)
    if res.outcome in ('crash', 'hang', 'runaway') and not out:
        out.append(V(ID, 'engine_crash', exc_key(res.exc),
                     f'{type(res.exc).__name__}: {res.exc}'))
    if res.state is None:
        return out
    stats.count('decisions', m.decisions)
    for f in m.flags:
        stats.count('class:' + f)
    stats.count('structure:' + res.state.betting_structure.name)
    nontrivial = bool(m.flags)
    if nontrivial:
        stats.count('nontrivial')
        stats.mark_nontrivial((sorted(cfg.items(), key=str),
                               tuple(map(repr, res.state.operations))))
    stats.sample(dict(config=cfg, flags=sorted(m.flags),
                      operations=describe_ops(res.state, 50)), nontrivial)
    return out


def demonstrate_known(k):
    """True when the listed finding still reproduces on the current tree."""
    import warnings
    from pokerkit import Automation, NoLimitTexasHoldem
    if not k.get('key', '').startswith('reopened_by_sum_of_short_all_ins'):
        return False
    with warnings.catch_warnings():
        warnings.simplefilter('ignore')
        try:
            # blinds 1/2; A (seat 2) raises to 4, B all-in 5, C calls 5,
            # D all-in 6, blinds call: A faces +2 (a full raise), C only +1
            s = NoLimitTexasHoldem.create_state(
                tuple(Automation), False, 0, (1, 2), 2,
                (80, 80, 80, 5, 80, 6), 6)
            s.complete_bet_or_raise_to(4)
            s.complete_bet_or_raise_to(5)
            s.check_or_call()
            s.complete_bet_or_raise_to(6)
            s.check_or_call()
            s.check_or_call()
            a_may = s.actor_index == 2 and s.can_complete_bet_or_raise_to()
            s.check_or_call()
            c_may = s.actor_index == 4 and s.can_complete_bet_or_raise_to()
            return bool(a_may and c_may)
        except Exception:  # noqa: BLE001
            return False
