"""C12 - automatic mucking and hand killing never cost a player chips.

The showdown is left to the engine (automation or default arguments).
Oracle: the final payoffs equal the reference award computed as if every
player who reached the showdown had tabled his full hand; a hand is mucked or
killed automatically only if the reference gives it nothing, and every
reference winner ends with all cards face up.  Tournament clause: partial
shows are refused at every tournament showdown (probed).
"""
from __future__ import annotations

import copy

from hypothesis import strategies as st

from .. import gen, refaward
from ..engine import (
    Hooks,
    _chunk_divmod,
    describe_ops,
    exc_key,
    op_kind,
    run_case,
)
from ..refeval import rs
from ..runner import V
from .c02 import _rake_cfg

from pokerkit import Mode

ID = 'C12'
RULE = (
    'cases = (config, tape) with known cards, showdown left to the engine'
    ' (automated or default argument), never-fold / all-in profiles, 3+'
    ' players, side pots, hi-lo, 1-3 boards, rigged decks. Oracle: payoffs =='
    ' reference award with every showdown player tabling all his cards (exact'
    ' for Fraction chips, within the odd-chip bound for int); each automatic'
    ' muck/kill hits a player the reference gives nothing; each reference'
    ' winner ends live with all cards up; in tournament mode every partial'
    ' show is refused at the showdown (probe). Non-trivial = showdown with'
    ' >= 3 players, >= 2 pots, 2 hand types or > 1 board; distinct ='
    ' distinct (config, log).'
)
ASSUMPTIONS = [
    'showdown hands known',
    'int chips: merging of pots after a muck may move odd chips between tied'
    ' winners; compared within (pots x boards x types) remainders',
]


class Obs:
    def __init__(self):
        self.cards = None
        self.folded = None
        self.auto_out = []     # (player, how)
        self.pre = None
        self.pushing = False

    def __call__(self, s, op):
        n = s.player_count
        if self.cards is None:
            self.cards = [[] for _ in range(n)]
            self.folded = [False] * n
        name = type(op).__name__ if op is not None else ''
        if name == 'Folding':
            self.folded[op.player_index] = True
        elif name == 'HandKilling':
            self.auto_out.append((op.player_index, 'killed'))
        elif name == 'HoleCardsShowingOrMucking' and not op.hole_cards:
            self.auto_out.append((op.player_index, 'mucked'))
        elif name == 'HoleCardsShowingOrMucking' and not any(op.hole_cards):
            # a voluntary face-down "show" (the player's choice, not the
            # engine's): he plays the board without tabling anything
            self.facedown = getattr(self, 'facedown', set())
            self.facedown.add(op.player_index)
        for i in range(n):
            if s.statuses[i]:
                self.cards[i] = [rs(c) for c in s.hole_cards[i] if c]
        if name == 'ChipsPushing':
            self.pushing = True
        if not self.pushing:
            self.pre = dict(
                boards=[[rs(c) for c in s.get_board_cards(j)]
                        for j in s.board_indices],
                any_board=any(s.board_cards),
                npots=len(list(s.pots)),
            )


class H(Hooks):
    def __init__(self, observe=None):
        self.viol = []
        self.probes = 0
        self.observe = observe

    def quiescent(self, it):
        if self.observe is not None:
            # a "user interface" reading every public accessor (half of the
            # cases): the engine's decisions must not depend on it
            self.observe.quiescent(it)
        s = it.state
        if s.mode != Mode.TOURNAMENT or self.viol:
            return
        i = s.showdown_index
        if i is None:
            return
        hole = tuple(s.hole_cards[i])
        if len(hole) < 2 or not all(hole):
            return
        # "in tournament mode an all-in ... showdown requires all hole cards
        # to be shown" (the Mode documentation: in all-in situations hole
        # cards must be shown): a known hand cannot be mucked there either
        if s.all_in_status:
            self.probes += 1
            if s.can_show_or_muck_hole_cards(False):
                self.viol.append(V(
                    ID, 'tournament_all_in_muck_accepted', '',
                    f'tournament all-in showdown (street {s.street_index}):'
                    f' show_or_muck_hole_cards(False) for {hole} is'
                    ' accepted'))
                return
        # a hand with one rank or suit withheld ('AcK?') is not a shown hand
        from pokerkit import Card
        for j in (0, len(hole) - 1):
            for half in (f'{hole[j].rank.value}?', f'?{hole[j].suit.value}'):
                text = ''.join(half if x == j else repr(c)
                               for x, c in enumerate(hole))
                self.probes += 1
                if s.can_show_or_muck_hole_cards(text):
                    self.viol.append(V(
                        ID, 'tournament_partial_show_accepted', 'half_known',
                        f'tournament showdown (all_in={s.all_in_status},'
                        f' street {s.street_index}): showing {text!r} for'
                        f' {hole} accepted'))
                    return
        for k in range(1, len(hole)):
            for sub in (hole[:k], hole[-k:]):
                self.probes += 1
                q = s.can_show_or_muck_hole_cards(sub)
                if q:
                    c = copy.deepcopy(s)
                    try:
                        c.show_or_muck_hole_cards(sub)
                        ok = True
                    except ValueError:
                        ok = False
                    self.viol.append(V(
                        ID, 'tournament_partial_show_accepted', '',
                        f'tournament showdown (all_in={s.all_in_status},'
                        f' street {s.street_index}): showing {sub} of {hole}'
                        f' accepted by query (operation'
                        f' {"succeeded" if ok else "refused"})'))
                    return


def budget(tier):
    if tier == 'quick':
        return dict(examples=4000, wall=110)
    return dict(examples=120000, wall=1500)


def strategy(tier):
    rigs = (None, 'low', 'fewranks', 'suited')
    # no rake here: the rake is taken per pot (with a cap per pot), and pots
    # merge when a contender is mucked or killed, so the rake - not the
    # award - would differ from the everybody-tables outcome
    common = dict(unknown=False, tape_size=80, rigs=rigs, min_players=3,
                  chips=('frac', 'int', 'frac', 'float'), rake=False)
    base = st.one_of(
        gen.cases(profiles=(5, 5, 2), short_bias=True, **common),
        gen.cases(profiles=(5, 2), **common),
        gen.cases(games=('FO8', 'F7S8', 'NR', 'NS', 'PO', 'NT', 'FR'),
                  profiles=(5,), **common),
        # deep stacks, checked down: final showdowns that are not all-in
        # (the engine's show/muck decision is only exercised there)
        gen.cases(profiles=(6, 6, 5), stack_styles=(5, 5, 0), **common),
    )

    board_plays = gen.cases(
        games=('NT', 'FT', 'NS', 'NR'), custom=False, profiles=(6, 6, 5),
        stack_styles=(5, 0), modes=('C',), boards=(1,),
        **dict(common, rigs=('boardplays',)))

    @st.composite
    def with_order(draw):
        if draw(st.integers(0, 5)) == 0:
            # the board plays for everybody; players may keep their cards
            # face down at the final showdown (documented empty show)
            case = draw(board_plays)
            case['show_order'] = 'with_empty_shows'
            case['config']['autos'] &= ~(1 << 7)
            return case
        case = draw(base)
        # the engine decides every show/muck; in half of the cases the
        # players come forward in a tape-chosen order (explicit index)
        case['show_order'] = draw(st.sampled_from(
            [True, 'any_order', 'any_order', 'partial_first',
             'with_empty_shows']))
        if case['show_order'] != True:  # noqa: E712
            # out-of-turn shows need the showdown in the players' hands
            case['config']['autos'] &= ~(1 << 7)
        return case

    return with_order()


def check(case, stats):
    cfg = dict(case['config'])
    cfg['auto_show'] = case.get('show_order', True)
    case = dict(case, config=cfg)
    obs = Obs()
    ob = None
    if cfg.get('deck_seed', 0) % 2:
        from .c15 import Observe
        ob = Observe(cfg['deck_seed'] // 2)
        stats.count('class:observed_run')
    h = H(ob)
    res = run_case(case, observers=(obs,), hooks=h)
    stats.count('outcome:' + str(res.outcome))
    if res.outcome == 'discard':
        return []
    if res.outcome in ('crash', 'hang', 'runaway'):
        return [V(ID, 'engine_crash', exc_key(res.exc),
                  f'{type(res.exc).__name__}: {res.exc}')]
    out = list(h.viol)
    if res.outcome != 'done':
        return out
    s = res.state
    ops = s.operations
    n = s.player_count
    shown = [o for o in ops if op_kind(o) == 'show_or_muck_hole_cards']
    if not shown and not obs.auto_out:
        stats.count('no_showdown')
        return out
    chip_t = cfg.get('chip', 'int')
    zero = 0 * s.starting_stacks[0]
    collected = [zero] * n
    ante_part = [zero] * n
    seen_blind = False
    for o in ops:
        k = op_kind(o)
        if k in ('post_blind_or_straddle', 'deal_hole'):
            seen_blind = True
        if k == 'collect_bets':
            for i in range(n):
                collected[i] += o.bets[i]
                if not seen_blind:
                    ante_part[i] += o.bets[i]
    remaining = [not f for f in obs.folded]
    if sum(remaining) < 2:
        stats.count('lone_survivor')
        return out
    pots = refaward.build_pots(collected, ante_part, remaining,
                               s.ante_trimming_status)
    rk = _rake_cfg(cfg)
    unraked = []
    raked_total = zero
    for a, e in pots:
        r, u = refaward.ref_rake(a, rk, chip_t, obs.pre['any_board'])
        unraked.append((u, e))
        raked_total += r
    dm = _chunk_divmod if cfg.get('divmod') == 'custom' else None
    hts = [t.__name__ for t in s.hand_types]
    exp, totals = refaward.award(unraked, remaining, obs.cards,
                                 obs.pre['boards'], hts, dm)
    nb, nt = len(obs.pre['boards']), len(hts)
    if cfg.get('divmod') == 'custom':
        # quotients in whole multiples of 5: how the remainder falls depends
        # on how levels are grouped into pots, which a muck may change
        tol = 5 * (len(pots) + 1) * nb * nt * n
    elif chip_t == 'frac':
        tol = 0
    elif chip_t == 'int':
        tol = (len(pots) + 1) * nb * nt * n
    else:
        tol = 1e-9 * max(1.0, float(sum(s.starting_stacks)))
    if rk and chip_t == 'int':
        # rake is rounded per pot; merging pots after a muck may move it
        tol += len(pots) + 1
    for i in range(n):
        want = totals[i] - collected[i]
        if abs(s.payoffs[i] - want) > tol:
            out.append(V(ID, 'payoff_differs_from_everybody_tabling', '',
                         f'player {i}: payoff {s.payoffs[i]} but {want} if'
                         f' everybody tabled; payoffs {s.payoffs}; reference'
                         f' totals {totals} collected {collected}; automatic'
                         f' mucks/kills {obs.auto_out}; hands {obs.cards};'
                         f' boards {obs.pre["boards"]}'))
            return out
    for p, how in obs.auto_out:
        if totals[p] > (0 if chip_t in ('int', 'frac') else tol):
            out.append(V(ID, 'winner_' + how, '',
                         f'player {p} was {how} automatically although the'
                         f' reference awards him {totals[p]}; hands'
                         f' {obs.cards}; boards {obs.pre["boards"]}'))
            return out
    for i in range(n):
        if totals[i] > (0 if chip_t in ('int', 'frac') else tol):
            if i in getattr(obs, 'facedown', ()):
                continue
            if not s.statuses[i] or not all(s.hole_card_statuses[i]):
                out.append(V(ID, 'winner_not_tabled', '',
                             f'reference winner {i} ends with statuses'
                             f' {s.statuses[i]} {s.hole_card_statuses[i]}'))
                return out
    flags = set()
    if sum(remaining) >= 3:
        flags.add('three_way')
    if len(pots) >= 2:
        flags.add('side_pots')
    if nt == 2:
        flags.add('two_hand_types')
    if nb > 1:
        flags.add('multi_board')
    if obs.auto_out:
        flags.add('auto_muck_or_kill')
    if any(kd == 'show_or_muck_hole_cards' and a == ((),)
           for kd, a in res.interp.steps):
        flags.add('voluntary_empty_show')
    if any(kd == 'show_or_muck_hole_cards' and len(a) == 2
           for kd, a in res.interp.steps):
        flags.add('out_of_turn_engine_decided')
    for f in flags:
        stats.count('class:' + f)
    stats.count('tournament_partial_show_probes', h.probes)
    nontrivial = bool(flags - {'auto_muck_or_kill', 'voluntary_empty_show',
                                'out_of_turn_engine_decided'})
    if nontrivial:
        stats.count('nontrivial')
        stats.mark_nontrivial((sorted(cfg.items(), key=str),
                               tuple(map(repr, ops))))
    stats.sample(dict(config=cfg, auto_out=obs.auto_out, totals=totals,
                      operations=describe_ops(s, 50)), nontrivial)
    return out
