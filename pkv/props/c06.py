"""C06 - card conservation.

Observer after every operation: the multiset of all card locations equals the
configured deck (no unknown cards), no known card ever occurs twice; per
operation the cards it names moved to the documented place; reserve piles
(burns, muck, discards) are recycled only by an operation that needed more
cards than the deck held.
"""
from __future__ import annotations

from collections import Counter

from hypothesis import strategies as st

from .. import gen
import warnings

from pokerkit import Card

from ..engine import Hooks, describe_ops, exc_key, observed_phase, run_case
from ..runner import V

ID = 'C06'
RULE = (
    'cases = (config, tape): all variants incl. custom street lists on the'
    ' 52/36/20/3-card decks, player counts up to what the deck supports'
    ' (7-8 handed stud, 6-7 handed triple draw: deck exhaustion), engine-'
    'chosen and explicit recommended cards; a second class mixes unknown'
    ' face-down cards. Oracle after every operation: every location taken'
    ' together is exactly the deck (class 1) / no known card twice (class 2);'
    ' fold/muck/kill -> muck pile gets exactly that hand, burn -> burn pile,'
    ' discard -> that street\'s discard pile, deal -> hole/board; dealt cards'
    ' were not in play; reserve piles shrink only when the deck could not'
    ' cover the deal. Non-trivial = history with a replenish, a discard that'
    ' is redrawn, an explicit (re-)tabling at showdown, or unknown cards;'
    ' distinct = distinct (config, log).'
)
ASSUMPTIONS = [
    'user-supplied cards come from get_dealable_cards(count) (the set whose'
    ' violation the engine itself warns about)',
]


def places(state):
    out = []
    out.extend(state.deck_cards)
    for b in state.board_cards:
        out.extend(b)
    for h in state.hole_cards:
        out.extend(h)
    out.extend(state.burn_cards)
    out.extend(state.mucked_cards)
    for d in state.discarded_cards:
        out.extend(d)
    return out


class Obs:
    def __init__(self, cfg):
        self.cfg = cfg
        self.viol = []
        self.deck = None
        self.prev = None
        self.flags = set()
        self.nops = 0
        self.unknown_seen = False
        # True unless the interpreter itself named the cards of the
        # operation being observed (set by the Named hook)
        self.engine_chosen = True

    def snap(self, s):
        return dict(
            deck=list(s.deck_cards),
            burn=list(s.burn_cards),
            muck=list(s.mucked_cards),
            disc=[list(d) for d in s.discarded_cards],
            hole=[list(h) for h in s.hole_cards],
            board=[list(b) for b in s.board_cards],
            street=s.street_index,
        )

    def v(self, kind, key, msg):
        if not self.viol:
            self.viol.append(V(ID, kind, key, msg))

    def __call__(self, s, op):
        try:
            self._observe(s, op)
        finally:
            # only the first operation of a step can carry named cards
            self.engine_chosen = True

    def _observe(self, s, op):
        if self.deck is None:
            self.deck = Counter(s.deck)
        self.nops += 1
        allc = places(s)
        known = [c for c in allc if c]
        nunknown = len(allc) - len(known)
        cnt = Counter(known)
        name = type(op).__name__
        where = f'after {op!r} (op #{len(s.operations)})'
        dup = [c for c, k in cnt.items() if k > 1]
        if dup:
            self.v('card_duplicated', name, f'{dup} occur twice {where}')
        foreign = [c for c in cnt if c not in self.deck]
        if foreign:
            self.v('foreign_card', name, f'{foreign} not of the deck {where}')
        if nunknown:
            self.unknown_seen = True
        # Placeholders the *harness* deals ('??' named by the interpreter,
        # cfg['unknown']) stand for cards nobody has seen, so the known
        # cards are then only a part of the deck.  Without them the only
        # placeholders are the ones the engine itself writes over the part
        # of a hand that was not tabled at the final showdown - the cards
        # behind them go back to the deck, and every card of the deck is
        # still somewhere.
        if not self.unknown_seen or not self.cfg.get('unknown'):
            if nunknown:
                self.flags.add('engine_written_placeholders')
            if cnt != self.deck:
                missing = list((self.deck - cnt).elements())
                extra = list((cnt - self.deck).elements())
                self.v('card_lost_or_invented', name,
                       f'missing {missing} extra {extra} {where}')
        cur = self.snap(s)
        prev = self.prev
        self.prev = cur
        if prev is None or op is None or self.viol:
            return
        pres = Counter(c for c in prev['burn'] + prev['muck']
                       + [x for d in prev['disc'] for x in d] if c)
        cres = Counter(c for c in cur['burn'] + cur['muck']
                       + [x for d in cur['disc'] for x in d] if c)
        pdeck = prev['deck']
        notplay_prev = Counter(c for c in pdeck if c) + pres
        if name in ('Folding', 'HandKilling') or (
                name == 'HoleCardsShowingOrMucking' and not op.hole_cards):
            i = op.player_index
            hand = prev['hole'][i]
            if cur['muck'][:len(prev['muck'])] != prev['muck'] or \
                    cur['muck'][len(prev['muck']):] != hand:
                self.v('muck_pile', name,
                       f'hand {hand} of player {i} not appended to the muck'
                       f' {cur["muck"]} {where}')
            if cur['hole'][i]:
                self.v('muck_pile', name,
                       f'player {i} still holds {cur["hole"][i]} {where}')
            if cur['burn'] != prev['burn'] or cur['disc'] != prev['disc'] \
                    or cur['deck'] != prev['deck']:
                self.v('unrelated_pile_changed', name, where)
        elif name == 'StandingPatOrDiscarding':
            i = op.player_index
            si = prev['street']
            want = prev['disc'][si] + list(op.cards)
            if cur['disc'][si] != want:
                self.v('discard_pile', name,
                       f'discards of street {si} are {cur["disc"][si]},'
                       f' expected {want} {where}')
            held = Counter(prev['hole'][i])
            if Counter(op.cards) - held:
                self.v('discarded_card_not_held', name, where)
            if Counter(cur['hole'][i]) != held - Counter(op.cards):
                self.v('discard_pile', name,
                       f'hole cards {cur["hole"][i]} != held minus'
                       f' discards {where}')
            if op.cards:
                self.flags.add('discard')
        elif name in ('CardBurning', 'HoleDealing', 'BoardDealing'):
            cards = [op.card] if name == 'CardBurning' else list(op.cards)
            k = len(cards)
            kn = [c for c in cards if c]
            for c in kn:
                if notplay_prev[c] < 1:
                    self.v('dealt_card_was_in_play', name,
                           f'{c!r} {where}')
            from_reserve = [c for c in kn if c not in pdeck]
            if from_reserve and self.engine_chosen and \
                    Counter(c for c in pdeck if c) - Counter(kn):
                # the engine chose these cards itself: the reserve piles
                # are touched only once the deck has run out
                left = list((Counter(c for c in pdeck if c)
                             - Counter(kn)).elements())
                self.v('reserve_used_before_deck_ran_out', name,
                       f'{from_reserve} came from burns/muck/discards while'
                       f' {left} stayed in the deck {where}')
            if from_reserve and len(pdeck) >= k:
                self.v('reserve_used_with_deck_available', name,
                       f'{from_reserve} came from burns/muck/discards'
                       f' although the deck held {len(pdeck)} >= {k} {where}')
            if from_reserve:
                self.flags.add('replenish')
            # reserve piles: only the burn pile may gain (the burnt card);
            # they shrink only when the deck could not cover the deal
            gained = cres - pres
            lost = pres - cres
            if name == 'CardBurning' and op.card:
                gained = gained - Counter([op.card])
                if cur['burn'][-1:] != [op.card]:
                    self.v('burn_pile', name,
                           f'burn pile {cur["burn"]} does not end with the'
                           f' burnt card {where}')
            if lost and len(pdeck) >= k:
                self.v('reserve_shrunk_with_deck_available', name,
                       f'{list(lost.elements())} left the reserve piles'
                       f' {where}')
            if name == 'HoleDealing':
                i = op.player_index
                if cur['hole'][i] != prev['hole'][i] + cards:
                    self.v('deal_target', name,
                           f'player {i} holds {cur["hole"][i]} {where}')
            if name == 'BoardDealing':
                pb = Counter(c for b in prev['board'] for c in b)
                cb = Counter(c for b in cur['board'] for c in b)
                if cb - pb != Counter(cards):
                    self.v('deal_target', name,
                           f'boards gained {list((cb - pb).elements())}'
                           f' {where}')
        elif name == 'HoleCardsShowingOrMucking':
            i = op.player_index
            if list(op.hole_cards) != prev['hole'][i]:
                self.flags.add('explicit_show')
            lost = pres - cres
            if lost and all(prev['hole'][i]):
                # tabling one's own known cards never touches the reserve
                self.v('reserve_shrunk_at_showdown', name,
                       f'{list(lost.elements())} {where}')
        else:
            # no card may move in any other operation
            if (cur['deck'], cur['burn'], cur['muck'], cur['disc'],
                    cur['hole'], cur['board']) != (
                    prev['deck'], prev['burn'], prev['muck'], prev['disc'],
                    prev['hole'], prev['board']):
                self.v('cards_moved_by_chip_operation', name, where)


# coverage-guided campaign (pkv/fuzz.py): same strategy and oracle driven by
# libFuzzer through Hypothesis' fuzz_one_input; pokerkit instrumented
FUZZ = dict(
    thorough=dict(procs=16, runs=6000, wall=900),
)


def budget(tier):
    if tier == 'quick':
        return dict(examples=6400, wall=100)
    return dict(examples=160000, wall=1500)


class Named(Hooks):
    """Tells the observer whether the interpreter named the cards of the
    next operation, and probes - on a deep copy - a board deal that mixes
    known cards and placeholders in one call."""

    def __init__(self, obs, cfg):
        self.obs = obs
        self.cfg = cfg
        self.viol = []
        self.mixed_probes = 0
        self.twice_probes = 0

    def before(self, it, kind, args):
        named = any(isinstance(a, (tuple, list, str)) and len(a) > 0
                    for a in args)
        self.obs.engine_chosen = not named

    def same_card_twice(self, s):
        """With warnings as errors the engine may refuse what it does not
        recommend; whatever it accepts must leave every known card in one
        place - also when the caller names one card twice in one argument
        (two copies of a dealable card, of a held card at the showdown)."""
        import copy
        from ..engine import is_engine_exception, unobserved
        tries = []
        if s.can_deal_board() or s.can_deal_hole():
            x = next(iter(s.get_dealable_cards(1)), None)
            if x is not None and x:
                if s.can_deal_board():
                    k = s.board_dealing_count or 0
                    for n in {2, k} - {0, 1}:
                        tries.append(('deal_board', (x,) * n))
                if s.can_deal_hole():
                    tries.append(('deal_hole', (x, x)))
        if s.can_show_or_muck_hole_cards():
            i = s.showdown_index
            held = [c for c in s.hole_cards[i] if c]
            if len(held) >= 2:
                tries.append(('show_or_muck_hole_cards', (held[0], held[0])))
        for name, cards in tries:
            c = copy.deepcopy(s)
            try:
                with warnings.catch_warnings(), unobserved():
                    warnings.simplefilter('error')
                    getattr(c, name)(cards)
            except (ValueError, UserWarning):
                self.twice_probes += 1
                continue
            except Exception as e:  # noqa: BLE001
                if not is_engine_exception(e):
                    raise
                continue    # a crash in the cascade is C07's business
            self.twice_probes += 1
            cnt = Counter(x for x in places(c) if x)
            dup = [x for x, n in cnt.items() if n > 1]
            if dup:
                self.viol.append(V(
                    ID, 'card_duplicated', 'same_card_twice_in_one_argument',
                    f'{name}({cards!r}) after {len(s.operations)} operations'
                    f' was accepted with warnings as errors: {dup} are in'
                    ' two places'))
                return

    def quiescent(self, it):
        s = it.state
        self.calls = getattr(self, 'calls', 0) + 1
        if not self.viol and s.status and self.calls % 3 == 0:
            self.same_card_twice(s)
        if self.viol or not self.cfg.get('unknown') or not s.status:
            return
        if not s.can_deal_board():
            return
        k = s.board_dealing_count
        if not k or k < 2:
            return
        cards = list(s.get_dealable_cards(k))[:k - 1]
        if len(cards) < k - 1:
            return
        import copy
        c = copy.deepcopy(s)
        mixed = tuple(cards) + (Card.UNKNOWN,)
        from ..engine import unobserved
        try:
            with warnings.catch_warnings(), unobserved():
                warnings.simplefilter('ignore')
                c.deal_board(mixed)
        except (ValueError, UserWarning):
            return
        except Exception as e:  # noqa: BLE001
            from ..engine import is_engine_exception
            if not is_engine_exception(e):
                raise
            return          # a crash in the cascade is C07's business
        self.mixed_probes += 1
        allc = places(c)
        cnt = Counter(x for x in allc if x)
        dup = [x for x, n in cnt.items() if n > 1]
        if dup:
            self.viol.append(V(
                ID, 'card_duplicated', 'mixed_board_deal',
                f'deal_board({mixed!r}) after {len(s.operations)}'
                f' operations: {dup} are in two places'))


def _big_drawers(case):
    case['config']['discard_heavy'] = True
    return case


def strategy(tier):
    return st.one_of(
        gen.cases(tape_size=110, rake=False, divmods=False,
                  chips=('int',), profiles=(0, 1, 4, 5, 5)),
        gen.cases(tape_size=110, rake=False, divmods=False,
                  chips=('int',), min_players=5, profiles=(5, 0, 4),
                  games=('F7S', 'F7S8', 'FR', 'F2L3D', 'FB', 'N2L1D', 'NR',
                         'NS')),
        gen.cases(tape_size=110, rake=False, divmods=False,
                  chips=('int',), unknown=True, profiles=(0, 4, 5)),
        # full draw tables of big drawers, the dealer naming the cards: the
        # deck runs short while discards lie in the reserve
        gen.cases(tape_size=130, rake=False, divmods=False, chips=('int',),
                  min_players=5, profiles=(4, 4, 5, 6), custom=False,
                  games=('F2L3D', 'N2L1D', 'FB'),
                  mask_strategy=st.sampled_from(
                      [2047 & ~(1 << 4), 2047 & ~(1 << 4) & ~(1 << 3), 0,
                       2047])).map(_big_drawers),
    )


def check(case, stats):
    cfg = case['config']
    if cfg.get('unknown'):
        cfg = dict(cfg)
        cfg['autos'] &= ~(1 << 7)
        case = dict(case, config=cfg)
    obs = Obs(cfg)
    named = Named(obs, cfg)
    ph = observed_phase(cfg)
    if ph is not None:
        stats.count('class:observed_run')
    res = run_case(case, observers=(obs,), observed=ph, hooks=named)
    stats.count('outcome:' + str(res.outcome))
    if res.outcome == 'discard':
        return []
    out = list(obs.viol) + list(named.viol)
    stats.count('mixed_board_probes', named.mixed_probes)
    stats.count('same_card_twice_probes', named.twice_probes)
    if res.outcome in ('crash', 'hang', 'runaway'):
        out.append(V(ID, 'engine_crash', exc_key(res.exc),
                     f'{type(res.exc).__name__}: {res.exc}'))
        return out
    st_ = res.state
    if st_ is None:
        return out
    flags = set(obs.flags)
    if obs.unknown_seen:
        flags.add('unknown_cards')
    for f in flags:
        stats.count('class:' + f)
    deckname = cfg['custom']['deck'] if cfg['game'] == 'CUSTOM' else \
        gen.GAME_DECK[cfg['game']]
    stats.count('deck:' + deckname)
    stats.count('ops_observed', obs.nops)
    nontrivial = bool(flags)
    if nontrivial:
        stats.count('nontrivial')
        stats.mark_nontrivial((sorted(cfg.items(), key=str),
                               tuple(map(repr, st_.operations))))
    stats.sample(dict(config=cfg, flags=sorted(flags),
                      operations=describe_ops(st_, 60)), nontrivial)
    return out
