"""C13 - the right player opens each betting round.

When the dealing of a street completes, an independent computation says who
must open the betting round (or that there is none): button games - the
player after the last counted blind/straddle on the first round (button first
heads-up), the first player after the button later; stud - lowest (razz:
highest) door card with suits c<d<h<s breaking ties on the first round, best
(razz: lowest) exposed hand later with ties to the earliest position; a
designated opener who cannot act passes the turn clockwise.  The next
operation must be that player's (or no betting at all).
"""
from __future__ import annotations

from hypothesis import strategies as st

from .. import gen
from ..engine import Hooks, describe_ops, exc_key, op_kind, run_case
from ..refeval import HI, LO, rs
from ..runner import V

ID = 'C13'
RULE = (
    'cases = (config, tape): button games with the documented blind families'
    ' (contiguous blinds/straddles, button straddle, late posts, equal'
    ' blinds, no small blind, heads-up, short-stacked blinds, players all-in'
    ' from the ante); stud games (high, hi-lo, razz, custom stud lists) 2-8'
    ' handed with explicit and rigged up-cards (few ranks: equal ranks in'
    ' different suits, pairs, ties), antes that put openers all-in. Oracle:'
    ' independent opener rule evaluated when a street\'s dealing completes;'
    ' next operation must be a betting action of that player (bring-in on'
    ' the first stud round) or, if nobody can act, no betting action.'
    ' Non-trivial = round whose designated opener is not player 0, or is'
    ' skipped because he cannot act, or is decided by suit or by a tie;'
    ' distinct = distinct (config, log prefix) rounds.'
)
ASSUMPTIONS = [
    'blind layouts from the documented families (non-decreasing from'
    ' position 0, optional button straddle, negative entries = posts)',
]

SUIT = {'c': 0, 'd': 1, 'h': 2, 's': 3}
BETTING = ('fold', 'check_or_call', 'post_bring_in',
           'complete_bet_or_raise_to')


def exposed_key(cards, table):
    vals = [table[r] for r, _ in cards]
    cnt = {}
    for v in vals:
        cnt[v] = cnt.get(v, 0) + 1
    order = sorted(cnt, key=lambda v: (cnt[v], v), reverse=True)
    shape = tuple(cnt[v] for v in order)
    # exposed hands have one to four cards: no pair < pair < two pair <
    # trips < quads (more than four cards are only ever up after an all-in
    # showdown, when nobody can act any more)
    if shape[0] == 4:
        cat = 4
    elif shape[0] == 3:
        cat = 3
    elif shape[:2] == (2, 2):
        cat = 2
    elif shape[0] == 2:
        cat = 1
    else:
        cat = 0
    return (cat,) + tuple(order)


def can_act(s, i):
    if not s.statuses[i] or not s.stacks[i] > 0:
        return False
    others = [s.stacks[j] + s.bets[j] for j in s.player_indices
              if j != i and s.statuses[j]]
    if not others:
        return False
    return min(s.stacks[i], max(0 * s.stacks[i],
                                max(others) - s.bets[i])) > 0


def expected_opener(s, flags):
    """(designated, actual first actor or None)"""
    n = s.player_count
    street = s.street
    opening = street.opening.name
    live = [i for i in s.player_indices if s.statuses[i]]
    if opening == 'POSITION':
        if s.street_index == 0 and any(b > 0 for b in s.blinds_or_straddles):
            nominal = [s.blinds_or_straddles[(not i) if n == 2 else i]
                       for i in s.player_indices]
            short = [i for i in s.player_indices
                     if nominal[i] > 0 and s.bets[i] < nominal[i]]
            posted = [i for i in s.player_indices
                      if nominal[i] > 0 and s.bets[i] > 0]
            if n == 2:
                agree = s.bets[0] > s.bets[1]
            else:
                by_size = max(posted, key=lambda i: (s.bets[i], i),
                              default=None)
                agree = by_size == max(i for i in s.player_indices
                                       if nominal[i] > 0)
            if short and posted and not agree:
                # a blind or straddle posted short (all-in for less, or
                # short after a returned ante) beside others that were
                # posted: the engine orders forced bets by size, the rule
                # books by position; the statement does not settle which
                # short post still "counts", so the first-round opener is
                # not judged when the two orders disagree about the last
                # forced bet.  When no blind chip at all reached the
                # table (every blind seat lost his stack to the ante) only
                # the positions are left to decide, and they are judged
                flags.add('not_judged_partial_blind_with_chips')
                return None, 'skip'
            if short:
                flags.add('blinds_swallowed_by_antes')
            if n == 2 and (s.blinds_or_straddles[0]
                           == s.blinds_or_straddles[1]):
                # heads-up with two equal blinds: there is no small blind;
                # the statement does not say who opens - not judged
                flags.add('not_judged_equal_blinds_heads_up')
                return None, 'skip'
            if n == 2:
                designated = 1        # the button (small blind) acts first
            else:
                last = max(i for i in s.player_indices
                           if s.blinds_or_straddles[i] > 0)
                designated = (last + 1) % n
        else:
            designated = 0            # first player after the button
    else:
        ups = {i: [rs(c) for c in s.get_up_cards(i)] for i in live}
        ups = {i: u for i, u in ups.items() if u}
        if not ups:
            designated = 0
        elif opening == 'LOW_CARD':
            def k(card):
                return (HI[card[0]], SUIT[card[1]])
            best = {i: min(u, key=k) for i, u in ups.items()}
            designated = min(best, key=lambda i: k(best[i]))
            ranks = [HI[c[0]] for c in best.values()]
            if ranks.count(min(ranks)) > 1:
                flags.add('decided_by_suit')
        elif opening == 'HIGH_CARD':
            def k(card):
                return (LO[card[0]], SUIT[card[1]])
            best = {i: max(u, key=k) for i, u in ups.items()}
            designated = max(best, key=lambda i: k(best[i]))
            ranks = [LO[c[0]] for c in best.values()]
            if ranks.count(max(ranks)) > 1:
                flags.add('decided_by_suit')
        elif opening == 'HIGH_HAND':
            keys = {i: exposed_key(u, HI) for i, u in ups.items()}
            top = max(keys.values())
            tied = sorted(i for i in keys if keys[i] == top)
            designated = tied[0]
            if len(tied) > 1:
                flags.add('tie_to_earliest_position')
        else:  # LOW_HAND
            keys = {i: exposed_key(u, LO) for i, u in ups.items()}
            low = min(keys.values())
            tied = sorted(i for i in keys if keys[i] == low)
            designated = tied[0]
            if len(tied) > 1:
                flags.add('tie_to_earliest_position')
    order = [(designated + k) % n for k in range(n)]
    able = [i for i in order if can_act(s, i)]
    if not able or sum(s.statuses) <= 1:
        return designated, None
    if len(able) == 1 and s.bets[able[0]] >= max(s.bets):
        return designated, None
    return designated, able[0]


def dealing_pending(s):
    return (s.card_burning_status or any(s.hole_dealing_statuses)
            or any(s.board_dealing_counts)
            or any(s.standing_pat_or_discarding_statuses))


class M(Hooks):
    def __init__(self, stats):
        self.stats = stats
        self.viol = []
        self.expect = None       # (street_index, designated, actor, nops)
        self.flags = set()
        self.rounds = 0

    def v(self, kind, key, msg):
        if not self.viol:
            self.viol.append(V(ID, kind, key, msg))

    def observe(self, s, op):
        if op is None or self.viol:
            return
        k = op_kind(op)
        if self.expect is not None:
            si, designated, actor, nops, desc = self.expect
            self.expect = None
            if actor is None:
                if k in BETTING:
                    self.v('betting_without_able_player', k,
                           f'{op!r} but nobody can act ({desc})')
            else:
                if k not in BETTING:
                    self.v('betting_round_skipped', str(k),
                           f'{op!r} although player {actor} must open the'
                           f' round ({desc})')
                elif op.player_index != actor:
                    self.v('wrong_opener', s.streets[si].opening.name,
                           f'{op!r} but player {actor} must open'
                           f' (designated {designated}; {desc})')
                elif k != 'post_bring_in' and si == 0 and s.bring_in \
                        and k != 'complete_bet_or_raise_to':
                    self.v('bring_in_not_forced', k, f'{op!r} ({desc})')
        if k in ('burn_card', 'deal_hole', 'deal_board',
                 'stand_pat_or_discard') and s.status \
                and s.street_index is not None and not dealing_pending(s):
            fl = set()
            designated, actor = expected_opener(s, fl)
            if actor == 'skip':
                self.flags |= fl
                return
            desc = (f'street {s.street_index} {s.street.opening.name}; up'
                    f' cards {[list(map(repr, s.get_up_cards(i))) for i in s.player_indices]};'
                    f' bets {s.bets} stacks {s.stacks} statuses'
                    f' {s.statuses} blinds {s.blinds_or_straddles}')
            self.expect = (s.street_index, designated, actor,
                           len(s.operations), desc)
            self.rounds += 1
            if actor is not None:
                if designated != 0:
                    fl.add('opener_not_player_0')
                if actor != designated:
                    fl.add('designated_opener_cannot_act')
            else:
                fl.add('no_betting_round')
            self.flags |= fl

    def quiescent(self, it):
        s = it.state
        if self.expect is None or self.viol:
            return
        si, designated, actor, nops, desc = self.expect
        if len(s.operations) != nops:
            return
        if s.actor_index != actor:
            self.v('wrong_opener', 'query',
                   f'actor_index {s.actor_index}, expected {actor}'
                   f' (designated {designated}; {desc})')
        elif si is not None and si > 0 and s.can_post_bring_in():
            # the forced bring-in belongs to the first round only: later
            # rounds are opened freely
            self.v('bring_in_on_later_round', '',
                   f'round {si} is opened by player {actor} under a forced'
                   f' bring-in ({desc})')


def budget(tier):
    if tier == 'quick':
        return dict(examples=8000, wall=100)
    return dict(examples=120000, wall=1500)


@st.composite
def late_fold_scenario(draw):
    """Constructed stud hand: checked/called down to a chosen street, where
    the player who opens (the best board) folds at once - legal in a cash
    game - and the others play on: the next rounds must be opened by the best
    *remaining* board."""
    game = draw(st.sampled_from(['F7S', 'F7S8', 'FR']))
    n = draw(st.integers(3, 7))
    k = draw(st.sampled_from([4, 5, 6, 6]))       # street of the fold
    nfold = draw(st.sampled_from([1, 1, 2]))
    tape = [0] * (n * (k - 3)) + [90] * nfold
    tape += draw(st.lists(st.sampled_from([0, 0, 0, 90, 5, 40]), max_size=30))
    cfg = dict(
        game=game, custom=None, n=n, mode='C', autos=2047, boards=1,
        trim=True, antes=[1] * n, blinds=[0] * n, bring_in=1, sb=2, bb=4,
        stacks=[200] * n, chip=draw(st.sampled_from(['int', 'frac'])),
        rake=None, divmod='default',
        deck_seed=draw(st.integers(0, 10 ** 6)), profile=0, strict=False,
        unknown=False, rig=draw(st.sampled_from([None, 'fewranks'])),
    )
    return {'config': cfg, 'tape': tape}


def strategy(tier):
    common = dict(unknown=False, tape_size=100, rake=False, divmods=False,
                  boards=(1,), chips=('int', 'int', 'frac'))
    return st.one_of(
        late_fold_scenario(),
        gen.cases(games=('F7S', 'F7S8', 'FR'), rigs=('fewranks', None, 'low'),
                  profiles=(0, 5, 4), **common),
        gen.cases(games=('F7S', 'F7S8', 'FR'), rigs=('fewranks', None),
                  short_bias=True, profiles=(0, 5, 2), **common),
        gen.cases(games=('FT', 'NT', 'PO', 'NS', 'N2L1D', 'FB'),
                  custom=False, profiles=(0, 1, 5), **common),
        gen.cases(games=('NT', 'FT', 'PO'), short_bias=True,
                  profiles=(0, 2, 5), **common),
        gen.cases(rigs=('fewranks', None), profiles=(0, 4, 5), **common),
    )


def check(case, stats):
    cfg = case['config']
    m = M(stats)
    res = run_case(case, hooks=m, observers=(m.observe,))
    stats.count('outcome:' + str(res.outcome))
    if res.outcome == 'discard':
        return []
    out = list(m.viol)
    if res.outcome in ('crash', 'hang', 'runaway') and not out:
        out.append(V(ID, 'engine_crash', exc_key(res.exc),
                     f'{type(res.exc).__name__}: {res.exc}'))
    if res.state is None:
        return out
    stats.count('rounds', m.rounds)
    for f in m.flags:
        stats.count('class:' + f)
    nontrivial = bool(m.flags - {'no_betting_round',
                                 'not_judged_equal_blinds_heads_up',
                                 'not_judged_partial_blind_with_chips'})
    if nontrivial:
        stats.count('nontrivial')
        stats.mark_nontrivial((sorted(cfg.items(), key=str),
                               tuple(map(repr, res.state.operations))))
    stats.sample(dict(config=cfg, flags=sorted(m.flags),
                      operations=describe_ops(res.state, 40)), nontrivial)
    return out
