"""C14 - multiple run-outs and multiple boards.

Oracle over generated all-in hands of board games: the run-out choice is
offered exactly to the players remaining in a cash-game all-in with community
cards to come, once each, never in tournaments; the number of run-outs is the
common expressed preference, else one; b starting boards and r run-outs give
b*r complete boards, the r run-outs of a starting board sharing exactly the
cards it held before the all-in, no card twice; every pot is divided evenly
between the boards (remainder on board 0).
"""
from __future__ import annotations

from hypothesis import strategies as st

from .. import gen
from ..engine import (
    Hooks, describe_ops, exc_key, observed_phase, op_kind, run_case,
)
from ..runner import V
from ..engine import is_engine_exception as _is_engine_exception

from pokerkit import Mode

ID = 'C14'
RULE = (
    'cases = (config, tape): the six predefined board games and flop-family'
    ' custom street lists, cash and tournament, 1-3 starting boards, stacks'
    ' and profiles that force the all-in on every street, preference vectors'
    ' over {None, 1, 2, 3} in any selection order (explicit player index),'
    ' before/after/between shows. Oracle: selection offered <=> cash and all'
    ' remaining players all-in and community cards to come; one selection'
    ' per remaining player, none in tournaments; run-outs = common non-None'
    ' preference else 1; board_count = b*r; every board complete; boards'
    ' k // r share the pre-all-in cards of starting board k // r; all other'
    ' board cards distinct; per pot equal amounts per board, remainder on'
    ' board 0. Non-trivial = r >= 2 or b >= 2; distinct = (config, log).'
)
ASSUMPTIONS = ['deck large enough for b*r boards (the generator bounds r)']


class M(Hooks):
    def __init__(self, cfg):
        self.cfg = cfg
        self.viol = []
        self.pre_boards = None     # boards before the first showdown op
        self.pre_live = None
        self.pre_street = None
        self.prev_boards = None
        self.prev_live = None
        self.prev_street = None
        self.offered_states = 0

    def v(self, kind, key, msg):
        if not self.viol:
            self.viol.append(V(ID, kind, key, msg))

    def observe(self, s, op):
        k = op_kind(op) if op is not None else None
        if k in ('select_runout_count', 'show_or_muck_hole_cards') \
                and self.pre_boards is None and self.prev_boards is not None:
            self.pre_boards = self.prev_boards
            self.pre_live = self.prev_live
            self.pre_street = self.prev_street
        if k not in ('push_chips', 'pull_chips'):
            try:
                self.prev_boards = [list(s.get_board_cards(j))
                                    for j in s.board_indices]
            except Exception as e:  # noqa: BLE001
                if not _is_engine_exception(e):
                    raise     # harness fault: exit 2
                self.v('board_accessor_raised', '', repr(e))
            self.prev_live = list(s.statuses)
            self.prev_street = s.street_index

    def quiescent(self, it):
        s = it.state
        if self.viol or not s.status:
            return
        q = s.can_select_runout_count()
        live = [i for i in s.player_indices if s.statuses[i]]
        with_chips = [i for i in live if s.stacks[i] > 0]
        to_come = s.street_index is not None and any(
            st_.board_dealing_count for st_ in s.streets[s.street_index + 1:])
        if q:
            self.offered_states += 1
            if s.mode == Mode.TOURNAMENT:
                self.v('offered_in_tournament', '',
                       f'after {len(s.operations)} operations')
            elif len(with_chips) > 1:
                self.v('offered_without_all_in', '',
                       f'players with chips {with_chips}')
            elif not to_come:
                self.v('offered_without_cards_to_come', '',
                       f'street {s.street_index}')
            # (a player who mucked after the offer was made stays on the
            # list of selectors; the statement only fixes to whom the offer
            # is made - the players remaining at the all-in - so this is
            # not judged)
            # "to each remaining player once": a player who has chosen, or
            # who folded before the all-in, is not offered the choice - also
            # when he is named explicitly
            chosen = {o.player_index for o in s.operations
                      if op_kind(o) == 'select_runout_count'}
            folded = {o.player_index for o in s.operations
                      if op_kind(o) == 'fold'}
            for i in s.player_indices:
                if i in chosen or i in folded:
                    for cnt in (None, 2):
                        if s.can_select_runout_count(cnt, i):
                            self.v('offered_twice_or_to_folded_player',
                                   'chosen' if i in chosen else 'folded',
                                   f'can_select_runout_count({cnt}, {i}) is'
                                   f' True although player {i} has'
                                   f' {"already chosen" if i in chosen else "folded"}'
                                   f' (after {len(s.operations)} operations)')
                            return


def budget(tier):
    if tier == 'quick':
        return dict(examples=6000, wall=100)
    return dict(examples=100000, wall=1500)


BOARD = ('FT', 'NT', 'NR', 'NS', 'PO', 'FO8')


def strategy(tier):
    common = dict(unknown=False, tape_size=90, rake=False,
                  chips=('int', 'int', 'frac'), boards=(1, 2, 2, 3))
    return st.one_of(
        gen.cases(games=BOARD, custom=False, profiles=(2, 5, 2),
                  short_bias=True, modes=('C', 'C', 'T'), **common),
        gen.cases(games=BOARD, profiles=(2, 5), short_bias=True,
                  modes=('C',), mask_strategy=st.sampled_from(
                      [2047 & ~(1 << 6), 2047 & ~(1 << 6) & ~(1 << 7), 0,
                       2047 & ~(1 << 6) & ~(1 << 5) & ~(1 << 3)]),
                  **common),
        gen.cases(games=BOARD, profiles=(1, 2, 5), modes=('C', 'T'),
                  **common),
        # a raked table: it is what is left after the rake that is divided
        # evenly between the boards
        gen.cases(games=BOARD, custom=False, profiles=(2, 5),
                  short_bias=True, modes=('C',),
                  **dict(common, rake=True, chips=('int', 'frac', 'dec'))),
    )


def check(case, stats):
    cfg = case['config']
    m = M(cfg)
    ph = observed_phase(cfg)
    if ph is not None:
        stats.count('class:observed_run')
    res = run_case(case, hooks=m, observers=(m.observe,), observed=ph)
    stats.count('outcome:' + str(res.outcome))
    if res.outcome == 'discard':
        return []
    out = list(m.viol)
    if res.outcome in ('crash', 'hang', 'runaway') and not out:
        out.append(V(ID, 'engine_crash', exc_key(res.exc),
                     f'{type(res.exc).__name__}: {res.exc}'))
    if res.outcome == 'refused' and not out:
        out.append(V(ID, 'available_operation_refused', exc_key(res.exc),
                     f'{res.exc!r}; last steps'
                     f' {res.interp.steps[-2:] if res.interp else ""}'))
    if res.outcome != 'done' or out:
        return out
    s = res.state
    ops = s.operations
    b = s.starting_board_count
    sels = [o for o in ops if op_kind(o) == 'select_runout_count']
    kinds = [op_kind(o) for o in ops]
    # all-in run-out: a showdown-phase op followed by board dealing
    first_sd = next((i for i, k in enumerate(kinds)
                     if k in ('select_runout_count',
                              'show_or_muck_hole_cards')), None)
    runout = first_sd is not None and 'deal_board' in kinds[first_sd:]
    total_board = sum(st_.board_dealing_count for st_ in s.streets)
    if cfg['mode'] == 'T' and sels:
        out.append(V(ID, 'selection_in_tournament', '', repr(sels[0])))
        return out
    to_come = m.pre_street is not None and any(
        st_.board_dealing_count for st_ in s.streets[m.pre_street + 1:])
    allin_sd = first_sd is not None and m.pre_live is not None and \
        s.all_in_status and to_come and sum(m.pre_live) > 1
    if cfg['mode'] == 'C' and allin_sd:
        want = sorted(i for i, x in enumerate(m.pre_live) if x)
        got = sorted(o.player_index for o in sels)
        if got != want:
            out.append(V(ID, 'selection_offering', '',
                         f'players remaining at the all-in {want}, run-out'
                         f' selections by {got}'))
            return out
    elif sels:
        out.append(V(ID, 'selection_without_all_in_runout', '',
                     f'{sels[0]!r}'))
        return out
    prefs = [o.runout_count for o in sels if o.runout_count is not None]
    if prefs:
        r = prefs[0] if all(p == prefs[0] for p in prefs) else 1
    else:
        r = 1
    if any(p < 1 for p in prefs):
        out.append(V(ID, 'non_positive_runout_count_accepted', '',
                     f'{prefs}'))
        return out
    # the hand may have ended before the run-out (everybody else mucked)
    final_live = sum(1 for o in ops if op_kind(o) == 'push_chips'
                     and o.board_index is not None)
    boards_dealt = runout or (first_sd is None)
    if s.board_count != b * r:
        out.append(V(ID, 'board_count', '',
                     f'{b} starting boards, preferences {[o.runout_count for o in sels]}'
                     f' -> {r} run-out(s), but board_count = {s.board_count}'))
        return out
    pushes = [o for o in ops if op_kind(o) == 'push_chips']
    showdown_push = [o for o in pushes if o.board_index is not None]
    if showdown_push:
        boards = [list(s.get_board_cards(k)) for k in range(b * r)]
        # a stud street the deck cannot cover is dealt as shared board
        # cards instead (documented fall-back, decided by C10): those streets
        # add their hole-card count to every board
        fallback = sum(
            len(o.cards) for o in ops if op_kind(o) == 'deal_board'
        ) - total_board * b * r if total_board == 0 else 0
        later_hole = any(st_.hole_dealing_statuses for st_ in s.streets[1:])
        for k, bd in enumerate(boards):
            if later_hole and len(bd) != total_board:
                # a later street deals hole cards: when the deck cannot cover
                # it the cards come as shared board cards instead (C10), so
                # a board may hold more than the street list prescribes
                stats.count('not_judged:fall_back_may_add_board_cards')
                break
            if total_board == 0 and fallback > 0:
                # boards exist only because of the fall-back: not a board
                # game in the sense of this property
                stats.count('not_judged:stud_fall_back_board')
                break
            if len(bd) != total_board:
                out.append(V(ID, 'incomplete_board', '',
                             f'board {k} = {bd} ({len(bd)} of'
                             f' {total_board} cards); r={r} b={b}'))
                return out
            if len(set(bd)) != len(bd):
                out.append(V(ID, 'card_twice_on_board', '', f'{bd}'))
                return out
        if m.pre_boards is not None and allin_sd:
            pre = m.pre_boards
            npre = len(pre[0]) if pre else 0
            for k, bd in enumerate(boards):
                j = k // r
                if j >= len(pre) or bd[:npre] != pre[j]:
                    out.append(V(ID, 'runout_does_not_share_pre_all_in_cards',
                                 '', f'board {k} = {bd}; starting board'
                                 f' {j} held {pre[j] if j < len(pre) else None}'
                                 f' before the all-in; r={r} b={b}'))
                    return out
            post = [c for bd in boards for c in bd[npre:]]
            used = post + [c for p in pre for c in p]
            if len(set(used)) != len(used):
                out.append(V(ID, 'card_twice_across_boards', '',
                             f'boards {boards}'))
                return out
        # division between boards, per pot
        tol = 0 if cfg.get('chip', 'int') in ('int', 'frac') else 1e-9
        by_pot = {}
        for o in showdown_push:
            by_pot.setdefault(o.pot_index, {}).setdefault(o.board_index, 0)
            by_pot[o.pot_index][o.board_index] += sum(o.amounts)
        for pi, per in by_pot.items():
            vals = [per.get(k, 0) for k in range(b * r)]
            rest = vals[1:]
            unit = 5 if cfg.get('divmod') == 'custom' else 1
            if rest and (max(rest) - min(rest) > tol):
                out.append(V(ID, 'pot_not_divided_evenly_between_boards', '',
                             f'pot {pi}: per board {vals}'))
                return out
            if rest:
                extra = vals[0] - rest[0]
                if extra < -tol or (cfg.get('chip', 'int') == 'int'
                                    and extra >= unit * b * r):
                    out.append(V(ID, 'remainder_not_on_first_board', '',
                                 f'pot {pi}: per board {vals}'))
                    return out
                if cfg.get('chip') == 'frac' and cfg.get('divmod') != \
                        'custom' and extra != 0:
                    out.append(V(ID, 'pot_not_divided_evenly_between_boards',
                                 'frac', f'pot {pi}: per board {vals}'))
                    return out
    flags = set()
    if r >= 2:
        flags.add('runouts>=2')
    if b >= 2:
        flags.add('boards>=2')
    if sels:
        flags.add('selection')
        if len(set(o.runout_count for o in sels)) > 1:
            flags.add('preferences_differ')
    if showdown_push and allin_sd:
        flags.add('all_in_runout_to_showdown')
    for f in flags:
        stats.count('class:' + f)
    stats.count('mode:' + cfg['mode'])
    stats.count('offered_states', m.offered_states)
    nontrivial = bool(flags & {'runouts>=2', 'boards>=2'}) and \
        bool(showdown_push)
    if nontrivial:
        stats.count('nontrivial')
        stats.mark_nontrivial((sorted(cfg.items(), key=str),
                               tuple(map(repr, ops))))
    stats.sample(dict(config=cfg, runouts=r, boards=b,
                      preferences=[o.runout_count for o in sels],
                      operations=describe_ops(s, 60)), nontrivial)
    return out
