"""Reference model of one betting round (from the rules; DESIGN appendix A).

The model is fed the public facts at the start of the round (who is live,
stacks, chips in front, the first actor) and then every betting action of the
round; it says who must act next, what each action costs, and which amounts
of a completion/bet/raise are admissible.
"""
from __future__ import annotations


class Round:
    def __init__(self, *, n, live, stacks, bets, first_actor, street_min,
                 cap, structure, bring_in, first_street, mode, total_chips,
                 pot0=None):
        self.n = n
        self.live = list(live)
        self.stacks = list(stacks)
        self.bets = list(bets)
        self.street_min = street_min
        self.cap = cap
        self.structure = structure          # 'FIXED_LIMIT' | 'POT_LIMIT' | ..
        self.mode = mode                    # 'T' | 'C'
        # chips on the table when the round begins (pots and the forced bets
        # in front of the players); stacks may be unknown (math.inf), so the
        # pot is counted from what is put in, not from what is left
        self.pot0 = total_chips - sum(self.stacks) if pot0 is None else pot0
        self.bets0 = sum(self.bets)
        self.largest = 0 * street_min       # largest raise increment so far
        self.count = 0                      # completions/bets/raises so far
        # Re-opening (WSOP live-action rule 129 / tournament rule 96, TDA 43):
        # a player who has acted may raise again only when the wager has
        # grown, since his own last action, by at least a full raise - one
        # full wager or several all-in wagers that are each too small but
        # add up "to a participant".  So the model remembers, per player, the
        # wager he last answered; a full wager (anything that is not an
        # all-in for less than the minimum) re-opens the round for everybody.
        self.answered = {}                  # player -> wager when he acted
        self.short_since_full = 0           # short all-ins since a full one
        self.full_level = max(self.bets)    # the wager after the last full one
        self.bring_in = bring_in
        self.bring_in_pending = bool(first_street and bring_in)
        self.completion_pending = self.bring_in_pending
        order = [(first_actor + k) % n for k in range(n)]
        self.to_act = [i for i in order if self.can_act_at_start(i)]
        if len(self.to_act) == 1 and \
                self.bets[self.to_act[0]] >= max(self.bets):
            self.to_act = []

    # ---- facts ------------------------------------------------------------
    def effective_stack(self, i):
        """what player i can still lose: the most an opponent can match"""
        others = [self.stacks[j] + self.bets[j] for j in range(self.n)
                  if j != i and self.live[j]]
        if not others:
            return 0 * self.street_min
        return min(self.stacks[i], max(0 * self.street_min,
                                       max(others) - self.bets[i]))

    def can_act_at_start(self, i):
        return self.live[i] and self.stacks[i] > 0 and \
            self.effective_stack(i) > 0

    @property
    def actor(self):
        if sum(self.live) <= 1 or not self.to_act:
            return None
        return self.to_act[0]

    @property
    def to_call(self):
        i = self.actor
        return min(self.stacks[i], max(self.bets) - self.bets[i])

    @property
    def pot_total(self):
        return self.pot0 + sum(self.bets) - self.bets0

    # ---- what is allowed ----------------------------------------------------
    def fold_status(self):
        """'yes', 'no', or 'warn' (cash-game fold without facing a bet)"""
        i = self.actor
        if i is None or self.bring_in_pending:
            return 'no'
        if self.bets[i] >= max(self.bets):
            return 'no' if self.mode == 'T' else 'warn'
        return 'yes'

    def can_check_or_call(self):
        return self.actor is not None and not self.bring_in_pending

    def can_post_bring_in(self):
        return self.actor is not None and self.bring_in_pending

    def bring_in_amount(self):
        return min(self.stacks[self.actor], self.bring_in)

    def reopening_undecided(self):
        """The statement's clause (an all-in raise smaller than a full raise
        does not re-open the betting) is the no-limit / pot-limit rule (WSOP
        tournament rule 96).  Limit play has its own half-bet rule (live-
        action rule 129: an all-in wager of half a bet or more is treated as
        a full bet, a smaller one is not) that the statement does not mention
        and the engine does not implement - the pinned suite even fixes one
        instance of it (test_all_ins: a stud completion all-in for 150 of 200
        re-opens).  Whether a player who has acted may raise over a growth
        below a full bet is therefore not judged in fixed-limit games."""
        i = self.actor
        if i is None or self.structure != 'FIXED_LIMIT' \
                or i not in self.answered:
            return False
        return max(self.bets) - self.answered[i] < self.full_raise()

    def raise_refusal(self):
        """None when a completion/bet/raise is admissible, else the reason."""
        i = self.actor
        if i is None:
            return 'nobody to act'
        if self.cap is not None and self.count >= self.cap:
            return 'cap reached'
        if i in self.answered and \
                max(self.bets) - self.answered[i] < self.full_raise():
            return 'already acted, facing less than a full raise'
        if self.stacks[i] <= max(self.bets) - self.bets[i]:
            return 'covered'
        if not any(j != i and self.live[j]
                   and self.stacks[j] + self.bets[j] > max(self.bets)
                   for j in range(self.n)):
            return 'nobody could call more'
        return None

    def full_raise(self):
        """the size of a full raise now: the largest wager or raise of the
        round, at least the street's minimum"""
        return max(self.largest, self.street_min)

    def full_raise_to(self):
        base = self.full_raise()
        if not self.completion_pending:
            base = base + max(self.bets)
        return base

    def min_raise_to(self):
        i = self.actor
        return min(self.effective_stack(i) + self.bets[i],
                   self.full_raise_to())

    def pot_raise_to(self):
        i = self.actor
        pot = 2 * max(self.bets) - self.bets[i] + self.pot_total
        return min(self.stacks[i] + self.bets[i],
                   max(self.min_raise_to(), pot))

    def max_raise_to(self):
        i = self.actor
        if self.structure == 'FIXED_LIMIT':
            return self.min_raise_to()
        if self.structure == 'POT_LIMIT':
            return self.pot_raise_to()
        return self.stacks[i] + self.bets[i]

    def accepts(self, amount):
        if self.raise_refusal() is not None:
            return False
        if amount is None:
            return True
        return self.min_raise_to() <= amount <= self.max_raise_to()

    # ---- transitions ------------------------------------------------------
    def _pop(self):
        return self.to_act.pop(0)

    def fold(self):
        i = self._pop()
        self.live[i] = False

    def check_or_call(self):
        amt = self.to_call
        i = self._pop()
        self.bets[i] += amt
        self.stacks[i] -= amt
        self.answered[i] = max(self.bets)
        return amt

    def post_bring_in(self):
        amt = self.bring_in_amount()
        i = self._pop()
        self.bets[i] += amt
        self.stacks[i] -= amt
        self.bring_in_pending = False
        # bringing in rather than completing is the player's action: when
        # everybody just calls, the round ends without an option for him
        self.answered[i] = max(self.bets)
        return amt

    def raise_to(self, amount):
        full_to = self.full_raise_to()
        i = self._pop()
        incr = amount - max(self.bets)
        delta = amount - self.bets[i]
        self.bets[i] = amount
        self.stacks[i] -= delta
        self.bring_in_pending = False
        self.completion_pending = False
        order = [(i + k) % self.n for k in range(1, self.n)]
        self.to_act = [j for j in order
                       if self.live[j] and self.stacks[j] > 0]
        # only an all-in can be for less than the minimum
        full = self.stacks[i] > 0 or amount >= full_to
        if full:
            self.answered = {}
            self.short_since_full = 0
            self.full_level = amount
        else:
            self.short_since_full += 1
        self.answered[i] = amount
        self.largest = max(self.largest, incr)
        self.count += 1
