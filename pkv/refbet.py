"""Reference model of one betting round (from the rules; DESIGN appendix A).

The model is fed the public facts at the start of the round (who is live,
stacks, chips in front, the first actor) and then every betting action of the
round; it says who must act next, what each action costs, and which amounts
of a completion/bet/raise are admissible.
"""
from __future__ import annotations


class Round:
    def __init__(self, *, n, live, stacks, bets, first_actor, street_min,
                 cap, structure, bring_in, first_street, mode, total_chips):
        self.n = n
        self.live = list(live)
        self.stacks = list(stacks)
        self.bets = list(bets)
        self.street_min = street_min
        self.cap = cap
        self.structure = structure          # 'FIXED_LIMIT' | 'POT_LIMIT' | ..
        self.mode = mode                    # 'T' | 'C'
        self.total_chips = total_chips      # all chips in play (sum starting)
        self.largest = 0 * street_min       # largest raise increment so far
        self.count = 0                      # completions/bets/raises so far
        self.acted = set()                  # acted since the last full raise
        self.short = []                     # consecutive all-in raise incr.
        self.bring_in = bring_in
        self.bring_in_pending = bool(first_street and bring_in)
        self.completion_pending = self.bring_in_pending
        order = [(first_actor + k) % n for k in range(n)]
        self.to_act = [i for i in order if self.can_act_at_start(i)]
        if len(self.to_act) == 1 and \
                self.bets[self.to_act[0]] >= max(self.bets):
            self.to_act = []

    # ---- facts ------------------------------------------------------------
    def effective_stack(self, i):
        """what player i can still lose: the most an opponent can match"""
        others = [self.stacks[j] + self.bets[j] for j in range(self.n)
                  if j != i and self.live[j]]
        if not others:
            return 0 * self.stacks[i]
        return min(self.stacks[i], max(0 * self.stacks[i],
                                       max(others) - self.bets[i]))

    def can_act_at_start(self, i):
        return self.live[i] and self.stacks[i] > 0 and \
            self.effective_stack(i) > 0

    @property
    def actor(self):
        if sum(self.live) <= 1 or not self.to_act:
            return None
        return self.to_act[0]

    @property
    def to_call(self):
        i = self.actor
        return min(self.stacks[i], max(self.bets) - self.bets[i])

    @property
    def pot_total(self):
        return self.total_chips - sum(self.stacks)

    # ---- what is allowed ----------------------------------------------------
    def fold_status(self):
        """'yes', 'no', or 'warn' (cash-game fold without facing a bet)"""
        i = self.actor
        if i is None or self.bring_in_pending:
            return 'no'
        if self.bets[i] >= max(self.bets):
            return 'no' if self.mode == 'T' else 'warn'
        return 'yes'

    def can_check_or_call(self):
        return self.actor is not None and not self.bring_in_pending

    def can_post_bring_in(self):
        return self.actor is not None and self.bring_in_pending

    def bring_in_amount(self):
        return min(self.stacks[self.actor], self.bring_in)

    def raise_refusal(self):
        """None when a completion/bet/raise is admissible, else the reason."""
        i = self.actor
        if i is None:
            return 'nobody to act'
        if self.cap is not None and self.count >= self.cap:
            return 'cap reached'
        if self.short and sum(self.short) < self.largest \
                and i in self.acted:
            return 'already acted, facing less than a full raise'
        if self.stacks[i] <= max(self.bets) - self.bets[i]:
            return 'covered'
        if not any(j != i and self.live[j]
                   and self.stacks[j] + self.bets[j] > max(self.bets)
                   for j in range(self.n)):
            return 'nobody could call more'
        return None

    def min_raise_to(self):
        i = self.actor
        base = max(self.largest, self.street_min)
        if not self.completion_pending:
            base = base + max(self.bets)
        return min(self.effective_stack(i) + self.bets[i], base)

    def pot_raise_to(self):
        i = self.actor
        pot = 2 * max(self.bets) - self.bets[i] + self.pot_total
        return min(self.stacks[i] + self.bets[i],
                   max(self.min_raise_to(), pot))

    def max_raise_to(self):
        i = self.actor
        if self.structure == 'FIXED_LIMIT':
            return self.min_raise_to()
        if self.structure == 'POT_LIMIT':
            return self.pot_raise_to()
        return self.stacks[i] + self.bets[i]

    def accepts(self, amount):
        if self.raise_refusal() is not None:
            return False
        if amount is None:
            return True
        return self.min_raise_to() <= amount <= self.max_raise_to()

    # ---- transitions ------------------------------------------------------
    def _pop(self):
        i = self.to_act.pop(0)
        self.acted.add(i)
        return i

    def fold(self):
        i = self._pop()
        self.live[i] = False

    def check_or_call(self):
        amt = self.to_call
        i = self._pop()
        self.bets[i] += amt
        self.stacks[i] -= amt
        return amt

    def post_bring_in(self):
        amt = self.bring_in_amount()
        i = self._pop()
        self.bets[i] += amt
        self.stacks[i] -= amt
        self.bring_in_pending = False
        return amt

    def raise_to(self, amount):
        i = self._pop()
        incr = amount - max(self.bets)
        delta = amount - self.bets[i]
        self.bets[i] = amount
        self.stacks[i] -= delta
        self.bring_in_pending = False
        self.completion_pending = False
        order = [(i + k) % self.n for k in range(1, self.n)]
        self.to_act = [j for j in order
                       if self.live[j] and self.stacks[j] > 0]
        if incr >= self.largest:
            self.acted = {i}
        self.largest = max(self.largest, incr)
        self.count += 1
        if self.stacks[i] > 0:
            self.short = []
        else:
            self.short.append(incr)
