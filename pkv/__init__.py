"""pkv - property-based verification machinery for uoftcprg/pokerkit.

Importing this package puts the repository under test (``PKV_REPO``, default
``/repo``) first on ``sys.path`` so that every check exercises the current
working tree.  Nothing is built or cached.
"""
import os
import sys

REPO = os.environ.get('PKV_REPO', '/repo')
VERIF = os.path.dirname(os.path.dirname(os.path.abspath(__file__)))

if REPO not in sys.path[:1]:
    sys.path.insert(0, REPO)
