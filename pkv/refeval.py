"""Reference hand evaluator written from the rules of poker (not from the
engine).  Cards are ``(rank_char, suit_char)`` pairs or pokerkit ``Card``s;
only ``.rank``/``.suit`` string values are read.

``key(hand_type, cards)`` returns ``None`` when the cards are not a hand of
that type, otherwise a tuple such that a *greater* tuple is a *stronger*
hand (the one that wins) under that type's rules.
"""
from __future__ import annotations

from itertools import combinations

HI = {r: i for i, r in enumerate('23456789TJQKA', 2)}            # A = 14
LO = {r: i for i, r in enumerate('A23456789TJQK', 1)}            # A = 1
SHORT = {r: i for i, r in enumerate('6789TJQKA', 6)}             # A = 14
KUHN = {'J': 11, 'Q': 12, 'K': 13}

# categories
HIGH_CARD, ONE_PAIR, TWO_PAIR, TRIPS, STRAIGHT, FLUSH, FULL_HOUSE, QUADS, \
    STRAIGHT_FLUSH = range(9)
LABELS = {
    HIGH_CARD: 'High card', ONE_PAIR: 'One pair', TWO_PAIR: 'Two pair',
    TRIPS: 'Three of a kind', STRAIGHT: 'Straight', FLUSH: 'Flush',
    FULL_HOUSE: 'Full house', QUADS: 'Four of a kind',
    STRAIGHT_FLUSH: 'Straight flush',
}


def rs(card):
    return str(card.rank.value if hasattr(card.rank, 'value') else card.rank
               ), str(card.suit.value if hasattr(card.suit, 'value')
                      else card.suit)


def _known(cards):
    for r, s in cards:
        if r == '?' or s == '?':
            return False
    return True


def _groups(vals):
    """ranks ordered by (multiplicity desc, rank desc) and the shape."""
    cnt = {}
    for v in vals:
        cnt[v] = cnt.get(v, 0) + 1
    order = sorted(cnt, key=lambda v: (cnt[v], v), reverse=True)
    shape = tuple(cnt[v] for v in order)
    return order, shape


_SHAPE_CAT = {
    (1, 1, 1, 1, 1): HIGH_CARD, (2, 1, 1, 1): ONE_PAIR, (2, 2, 1): TWO_PAIR,
    (3, 1, 1): TRIPS, (3, 2): FULL_HOUSE, (4, 1): QUADS,
}


def _high5(cards, table, wheel_low, flush_over_full):
    """Five-card high evaluation over rank table ``table``.

    ``wheel_low``: the rank value below which the ace may play low in a
    straight (2 for the standard deck: A-2-3-4-5; 6 for short deck:
    A-6-7-8-9).
    """
    if len(cards) != 5 or not _known(cards):
        return None
    try:
        vals = [table[r] for r, _ in cards]
    except KeyError:
        return None
    if len(set(cards)) != 5:
        return None
    order, shape = _groups(vals)
    cat = _SHAPE_CAT[shape]
    flush = len({s for _, s in cards}) == 1
    straight_high = None
    if shape == (1, 1, 1, 1, 1):
        top, low = order[0], order[-1]
        if top - low == 4:
            straight_high = top
        elif top == 14 and order[1:] == [wheel_low + 3, wheel_low + 2,
                                         wheel_low + 1, wheel_low]:
            straight_high = wheel_low + 3
    if straight_high is not None:
        cat = STRAIGHT_FLUSH if flush else STRAIGHT
        return (_rank_cat(cat, flush_over_full), straight_high)
    if flush:
        cat = FLUSH
    return (_rank_cat(cat, flush_over_full),) + tuple(order)


def _rank_cat(cat, flush_over_full):
    if flush_over_full:
        if cat == FLUSH:
            return FULL_HOUSE
        if cat == FULL_HOUSE:
            return FLUSH
    return cat


def category(hand_type, cards):
    """Reference category label of a valid hand (for entry.label)."""
    cards = [c if isinstance(c, tuple) else rs(c) for c in cards]
    t = BASE.get(hand_type, hand_type)
    if t in ('standard_high', 'standard_low'):
        k = _high5(cards, HI, 2, False)
        return LABELS[k[0]] if k else None
    if t == 'short_deck':
        k = _high5(cards, SHORT, 6, False)
        return LABELS[k[0]] if k else None
    if t == 'regular_low':
        k = _regular_low(cards)
        return LABELS[-k[0]] if k else None
    return 'High card'


def _neg(t):
    return tuple(-x for x in t)


def is_wheel(cards):
    """5-4-3-2-A"""
    cards = [c if isinstance(c, tuple) else rs(c) for c in cards]
    return len(cards) == 5 and sorted(r for r, _ in cards) == \
        sorted(['A', '2', '3', '4', '5'])


def key_rules(hand_type, cards):
    """``key`` by the rule book where the engine's documented design and the
    rule book part: in deuce-to-seven lowball the ace is only a high card, so
    5-4-3-2-A is no straight but the best ace-high (WSOP live-action rule
    291, bundled in docs/_static).  Only C04 uses this; the other checks
    take the hand type's comparison as given."""
    cards = [c if isinstance(c, tuple) else rs(c) for c in cards]
    t = BASE.get(hand_type, hand_type)
    if t == 'standard_low' and is_wheel(cards):
        k = _high5(cards, HI, -99, False)      # no wheel straight
        return None if k is None else _neg(k)
    return key(hand_type, cards)


def category_rules(hand_type, cards):
    cards = [c if isinstance(c, tuple) else rs(c) for c in cards]
    t = BASE.get(hand_type, hand_type)
    if t == 'standard_low' and is_wheel(cards):
        k = _high5(cards, HI, -99, False)
        return LABELS[k[0]] if k else None
    return category(hand_type, cards)


def _regular_low(cards):
    """Ace-to-five low: aces low, straights and flushes do not exist."""
    if len(cards) != 5 or not _known(cards):
        return None
    if len(set(cards)) != 5:
        return None
    vals = [LO[r] for r, _ in cards]
    order, shape = _groups(vals)
    cat = _SHAPE_CAT[shape]
    return _neg((cat,) + tuple(order))


def _eight_low(cards):
    if len(cards) != 5 or not _known(cards):
        return None
    vals = sorted((LO[r] for r, _ in cards), reverse=True)
    if len(set(vals)) != 5 or vals[0] > 8:
        return None
    return _neg(tuple(vals))


def _badugi(cards, table):
    if not 1 <= len(cards) <= 4 or not _known(cards):
        return None
    vals = [table[r] for r, _ in cards]
    if len(set(vals)) != len(vals):
        return None
    if len({s for _, s in cards}) != len(cards):
        return None
    return (len(cards),) + _neg(tuple(sorted(vals, reverse=True)))


def _kuhn(cards):
    if len(cards) != 1 or not _known(cards):
        return None
    r = cards[0][0]
    if r not in KUHN:
        return None
    return (KUHN[r],)


# hand class name -> base evaluation rule
BASE = {
    'StandardHighHand': 'standard_high',
    'StandardLowHand': 'standard_low',
    'ShortDeckHoldemHand': 'short_deck',
    'EightOrBetterLowHand': 'eight_low',
    'RegularLowHand': 'regular_low',
    'GreekHoldemHand': 'standard_high',
    'OmahaHoldemHand': 'standard_high',
    'OmahaEightOrBetterLowHand': 'eight_low',
    'BadugiHand': 'badugi',
    'StandardBadugiHand': 'standard_badugi',
    'KuhnPokerHand': 'kuhn',
}
HAND_CLASSES = tuple(BASE)


def key(hand_type, cards):
    """Strength key of exactly these cards as a hand of ``hand_type``."""
    cards = [c if isinstance(c, tuple) else rs(c) for c in cards]
    t = BASE.get(hand_type, hand_type)
    if t == 'standard_high':
        return _high5(cards, HI, 2, False)
    if t == 'standard_low':
        k = _high5(cards, HI, 2, False)
        return None if k is None else _neg(k)
    if t == 'short_deck':
        return _high5(cards, SHORT, 6, True)
    if t == 'eight_low':
        return _eight_low(cards)
    if t == 'regular_low':
        return _regular_low(cards)
    if t == 'badugi':
        return _badugi(cards, LO)
    if t == 'standard_badugi':
        return _badugi(cards, HI)
    if t == 'kuhn':
        return _kuhn(cards)
    raise ValueError(hand_type)


def best(hand_type, hole, board):
    """Best key under the game's composition rule, or None.

    any five of the cards for standard games; exactly two hole plus three
    board cards for Omaha (high and eight-or-better low); both hole cards plus
    three board cards for Greek hold'em; the largest rainbow/unpaired subset
    for badugi; the best single card for Kuhn.
    """
    hole = [c if isinstance(c, tuple) else rs(c) for c in hole]
    board = [c if isinstance(c, tuple) else rs(c) for c in board]
    best_k = None

    def consider(cs):
        nonlocal best_k
        k = key(hand_type, cs)
        if k is not None and (best_k is None or k > best_k):
            best_k = k

    if hand_type in ('OmahaHoldemHand', 'OmahaEightOrBetterLowHand'):
        for h in combinations(hole, 2):
            for b in combinations(board, 3):
                consider(list(h) + list(b))
    elif hand_type == 'GreekHoldemHand':
        # both hole cards: with exactly two hole cards that is "the two";
        # with more the rule is every pair... the engine's class is only
        # used with two hole cards; see C05 for the admissible shapes
        for h in combinations(hole, len(hole)):
            for b in combinations(board, 3):
                if len(h) + 3 == 5:
                    consider(list(h) + list(b))
    elif BASE[hand_type] in ('badugi', 'standard_badugi'):
        allc = hole + board
        for size in (4, 3, 2, 1):
            for cs in combinations(allc, size):
                consider(list(cs))
    elif BASE[hand_type] == 'kuhn':
        for c in hole + board:
            consider([c])
    else:
        for cs in combinations(hole + board, 5):
            consider(list(cs))
    return best_k
