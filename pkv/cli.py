"""Command line: ./check C07 [--tier quick|thorough] [--replay FILE]."""
import argparse
import os
import sys


def main(argv=None):
    if os.environ.get('PYTHONHASHSEED') != '0':
        env = dict(os.environ, PYTHONHASHSEED='0')
        os.execve(sys.executable, [sys.executable, '-m', 'pkv.cli']
                  + sys.argv[1:], env)
    ap = argparse.ArgumentParser()
    ap.add_argument('property')
    ap.add_argument('--tier', default=os.environ.get('VERIF_TIER', 'quick'))
    ap.add_argument('--replay')
    ap.add_argument('--seed', type=int,
                    default=int(os.environ.get('VERIF_SEED', '1') or 1))
    a = ap.parse_args(argv)
    try:
        from pkv import runner
        code = runner.run(a.property.upper(), a.tier, a.seed, a.replay)
    except SystemExit:
        raise
    except BaseException:  # noqa: BLE001
        import traceback
        traceback.print_exc()
        print(f'HARNESS-ERROR property={a.property}')
        code = 2
    sys.exit(code)


if __name__ == '__main__':
    main()
