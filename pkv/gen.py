"""Hypothesis strategies for configs and tapes (DESIGN 2.1).

Everything that later matters is *constructed*; the only rejection is the
deck-size precondition of DESIGN 3-1, applied while constructing (player
counts are bounded by what the deck supports, never filtered afterwards).
"""
from __future__ import annotations

from hypothesis import strategies as st

from .engine import (
    BOARD_GAMES,
    DECK_SIZE,
    DRAW_GAMES,
    FULL_MASK,
    GAMES,
    STUD_GAMES,
)

ALL_GAMES = tuple(GAMES)

GAME_DECK = {
    'FT': 'STANDARD', 'NT': 'STANDARD', 'NR': 'ROYAL_POKER',
    'NS': 'SHORT_DECK_HOLDEM', 'PO': 'STANDARD', 'FO8': 'STANDARD',
    'F7S': 'STANDARD', 'F7S8': 'STANDARD', 'FR': 'REGULAR',
    'N2L1D': 'STANDARD', 'F2L3D': 'STANDARD', 'FB': 'REGULAR',
}


def max_players(game, boards):
    _, _, hole, board, cap = GAMES[game]
    size = DECK_SIZE[GAME_DECK[game]]
    if game in STUD_GAMES:
        return cap
    burns = 3 if board else (1 if game == 'N2L1D' else 3)
    n = (size - boards * board - burns) // hole
    return max(2, min(cap, n))


@st.composite
def tapes(draw, max_size=120):
    # Hypothesis' default list length averages ~5 elements, which would end
    # almost every hand on defaults; draw the minimum length explicitly
    # (it shrinks to 0 first, then the list shrinks as usual)
    lo = draw(st.sampled_from([0, 3, 8, 16, 30, 50, 80]))
    lo = min(lo, max_size)
    return draw(st.lists(st.integers(0, 2 ** 16 - 1), min_size=lo,
                         max_size=max_size))


@st.composite
def masks(draw):
    kind = draw(st.integers(0, 9))
    if kind <= 2:
        return FULL_MASK
    if kind == 3:
        return 0
    if kind == 4:
        return 1 << draw(st.integers(0, 10))
    if kind == 5:
        return FULL_MASK ^ (1 << draw(st.integers(0, 10)))
    return draw(st.integers(0, FULL_MASK))


def _palette(bb, sb):
    return sorted({
        1, max(1, sb - 1), sb, sb + 1, max(1, bb - 1), bb, bb + 1,
        (3 * bb) // 2, 2 * bb, 2 * bb + 1, 3 * bb, 5 * bb, 7 * bb, 10 * bb,
        25 * bb, 60 * bb, 100 * bb,
    })


@st.composite
def stacks_strategy(draw, n, sb, bb, short_bias=False, styles=None):
    pal = _palette(bb, sb)
    style = draw(st.sampled_from(styles) if styles else st.integers(0, 6))
    if style == 6 and n >= 4:
        # "ladder": deep players plus short stacks whose consecutive all-in
        # raises over a minimum raise sum to just below / exactly / just
        # above one full raise (the short all-in re-opening rule)
        full = draw(st.sampled_from([bb, 2 * bb]))
        x = bb + full
        parts = draw(st.sampled_from([2, 2, 3]))
        tot = full + draw(st.sampled_from([-1, 0, 0, 0, 1]))
        tot = max(parts, tot)
        cuts = sorted(draw(st.lists(st.integers(1, max(1, tot - 1)),
                                    min_size=parts - 1, max_size=parts - 1)))
        levels = [x + c for c in cuts] + [x + tot]
        deep = [draw(st.sampled_from([25 * bb, 60 * bb, 100 * bb]))
                for _ in range(n - len(levels))]
        vals = deep + levels[:n]
        return draw(st.permutations(vals[:n]))
    if style == 0:
        v = draw(st.sampled_from(pal))
        return [v] * n
    if style == 1 or short_bias:
        lo = [p for p in pal if p <= 5 * bb]
        return [draw(st.sampled_from(lo)) for _ in range(n)]
    if style == 2:
        return [draw(st.sampled_from(pal)) for _ in range(n)]
    if style == 3:
        # distinct ascending levels -> many side pots
        base = draw(st.integers(1, 3 * bb))
        step = draw(st.integers(1, 2 * bb))
        vals = [base + i * step for i in range(n)]
        return draw(st.permutations(vals))
    if style == 4:
        return [draw(st.integers(1, 40 * bb)) for _ in range(n)]
    hi = [p for p in pal if p >= 5 * bb]
    return [draw(st.sampled_from(hi)) for _ in range(n)]


@st.composite
def antes_strategy(draw, n, bb, stud):
    style = draw(st.integers(0, 7))
    a = draw(st.sampled_from([1, max(1, bb // 4), max(1, bb // 2), bb,
                              2 * bb]))
    if stud:
        if style <= 5:
            return [a] * n
        if style == 6:
            return [0] * n
        return [draw(st.sampled_from([0, a])) for _ in range(n)]
    if style <= 2:
        return [0] * n
    if style == 3:
        return [a] * n
    if style == 4:
        v = [0] * n
        v[1 % n] = a          # big-blind ante
        return v
    if style == 5:
        v = [0] * n
        v[-1] = a             # button ante
        return v
    return [draw(st.sampled_from([0, a, 2 * a])) for _ in range(n)]


@st.composite
def blinds_strategy(draw, n, sb_amt, bb_amt):
    style = draw(st.integers(0, 9))
    if n == 2:
        if style <= 6:
            return [sb_amt, bb_amt]
        if style == 7:
            return [bb_amt, bb_amt]
        if style == 8:
            return [0, bb_amt]
        return [sb_amt, bb_amt]
    v = [0] * n
    v[0], v[1] = sb_amt, bb_amt
    if style <= 3:
        return v
    if style == 4:
        v[2] = 2 * bb_amt                      # straddle
        if n > 4 and draw(st.booleans()):
            v[3] = 4 * bb_amt                  # double straddle
        return v
    if style == 5:
        v[0] = bb_amt                          # equal blinds
        return v
    if style == 6:
        v[0] = 0                               # no small blind
        return v
    if style == 7 and n > 3:
        v[-1] = 2 * bb_amt                     # button straddle
        return v
    if style == 8 and n > 3:
        # a late-seated player posts (does not count for the opener)
        k = draw(st.integers(2, n - 1))
        v[k] = -draw(st.sampled_from([sb_amt, bb_amt]))
        return v
    if style == 9 and n > 3:
        k = draw(st.integers(2, n - 1))
        v[k] = -bb_amt
        if k != 2:
            v[2] = 2 * bb_amt
        return v
    return v


# ---- custom street lists (four template families) --------------------------

@st.composite
def custom_game(draw, families=None):
    """A custom street list; when two of its street definitions are equal by
    value they may be one shared ``Street`` object (``share_streets``) - a
    natural way to write a triple draw or a turn and river - or distinct
    objects; the hand must be the same either way."""
    d = draw(_custom_game(families))
    keys = [repr(x) for x in d['streets']]
    if len(set(keys)) < len(keys):
        d['share_streets'] = draw(st.booleans())
    return d


@st.composite
def _custom_game(draw, families=None):
    fam = draw(st.sampled_from(families or ['flop', 'stud', 'draw', 'kuhn',
                                            'flop', 'stud', 'mixed',
                                            'drawboard', 'repeat']))
    structure = draw(st.sampled_from(['FIXED_LIMIT', 'POT_LIMIT',
                                      'NO_LIMIT']))
    cap = draw(st.sampled_from([None, None, 1, 2, 3, 4]))
    mb = draw(st.sampled_from([2, 4]))
    burn = draw(st.booleans())
    if fam == 'kuhn':
        streets = [[0, [0], 0, 0, 'POSITION', mb, cap]]
        if draw(st.booleans()):
            # Leduc-like: a second street with one board card (3-card deck)
            burn = False
            streets.append([0, [], 1, 0, 'POSITION', mb, cap])
        return dict(
            deck='KUHN_POKER', hand_types=['KuhnPokerHand'],
            structure=structure, streets=streets, family=fam, hole=1,
            board=len(streets) - 1, burns=int(burn) * (len(streets) - 1),
            stud=False, max_n=2 if len(streets) == 1 else 2,
        )
    if fam == 'flop':
        hole = draw(st.integers(1, 6))
        shape = draw(st.sampled_from([(3, 1, 1), (5,), (1, 1, 1), (3, 2),
                                      (2, 2, 1)]))
        streets = [[0, [0] * hole, 0, 0, 'POSITION', mb, cap]]
        extra_hole = 0
        if hole <= 4 and draw(st.integers(0, 4)) == 0:
            # a second round of hole cards before any community card
            streets.append([0, [0], 0, 0, 'POSITION', mb, cap])
            extra_hole = 1
        for j, b in enumerate(shape):
            amt = mb * (2 if j >= len(shape) - 2 and len(shape) > 2 else 1)
            streets.append([int(burn), [], b, 0, 'POSITION', amt, cap])
        hole += extra_hole
        total = hole + sum(shape)
        opts = []
        if total >= 5:
            opts += [['StandardHighHand'], ['StandardLowHand'],
                     ['RegularLowHand'],
                     ['StandardHighHand', 'EightOrBetterLowHand']]
        if hole >= 2 and sum(shape) >= 3:
            opts += [['OmahaHoldemHand'],
                     ['OmahaHoldemHand', 'OmahaEightOrBetterLowHand']]
            if hole == 2:
                opts += [['GreekHoldemHand']]
        if not opts:
            opts = [['BadugiHand'], ['StandardBadugiHand']]
        deck = draw(st.sampled_from(['STANDARD', 'REGULAR']))
        hts = draw(st.sampled_from(opts))
        if len(hts) == 2 and draw(st.booleans()):
            # the low half listed first (the order of hand_types is the
            # caller's choice)
            hts = hts[::-1]
        if hts == ['StandardHighHand'] and draw(st.integers(0, 3)) == 0 \
                and total >= 5:
            deck = 'SHORT_DECK_HOLDEM'
            hts = ['ShortDeckHoldemHand']
        return dict(
            deck=deck, hand_types=hts, structure=structure, streets=streets,
            family=fam, hole=hole, board=sum(shape),
            burns=int(burn) * len(shape), stud=False, max_n=9,
        )
    if fam == 'repeat':
        # the same street definition on every round (equal by value, a
        # distinct object each time): only the first round is a first round
        k = draw(st.integers(2, 4))
        low = draw(st.booleans())
        one = [0, [0, 1], 0, 0, 'HIGH_CARD' if low else 'LOW_CARD', mb, cap]
        streets = [list(one) for _ in range(k)]
        return dict(
            deck='STANDARD', hand_types=['StandardBadugiHand'] if 2 * k < 5
            else (['StandardLowHand'] if low else ['StandardHighHand']),
            structure=structure, streets=streets, family=fam, hole=2 * k,
            board=0, burns=0, stud=True, bring=True, max_n=6,
        )
    if fam == 'drawboard':
        # a draw round followed by community cards (none of the predefined
        # variants has one): an all-in during the draw street has board
        # streets still to come
        hole = draw(st.sampled_from([2, 4, 5]))
        streets = [[0, [0] * hole, 0, 0, 'POSITION', mb, cap],
                   [int(burn), [], 0, 1, 'POSITION', mb, cap]]
        shape = draw(st.sampled_from([(3, 1), (3, 1, 1), (2, 1)]))
        for b in shape:
            streets.append([int(burn), [], b, 0, 'POSITION', 2 * mb, cap])
        if hole + sum(shape) >= 5:
            hts = draw(st.sampled_from([['StandardHighHand'],
                                        ['StandardLowHand']]))
        else:
            hts = ['BadugiHand']
        return dict(
            deck='STANDARD', hand_types=hts, structure=structure,
            streets=streets, family=fam, hole=2 * hole, board=sum(shape),
            burns=int(burn) * (1 + len(shape)), stud=False, max_n=7,
        )
    if fam == 'mixed':
        # streets that prescribe a hole card *and* a community card (none of
        # the predefined variants has one): full tables run the deck short,
        # so the hole-to-board fall-back meets a street with its own board
        k = draw(st.integers(2, 4))
        first = draw(st.sampled_from([[0, 0], [0, 0, 1], [0, 1]]))
        streets = [[0, first, 0, 0, 'POSITION', mb, cap]]
        for j in range(k):
            up = draw(st.sampled_from([0, 1]))
            streets.append([int(burn), [up], 1, 0, 'POSITION',
                            mb * (2 if j >= k - 2 and k > 2 else 1), cap])
        return dict(
            deck='STANDARD', hand_types=['StandardHighHand'],
            structure=structure, streets=streets, family=fam,
            hole=len(first) + k, board=k, burns=int(burn) * k, stud=True,
            bring=False, max_n=9,
        )
    if fam == 'stud':
        nstreets = draw(st.integers(3, 5))
        low = draw(st.booleans())
        first = draw(st.sampled_from([[0, 0, 1], [0, 1], [1], [0, 1, 1]]))
        bring = draw(st.booleans())
        streets = [[0, first, 0, 0,
                    'HIGH_CARD' if low else 'LOW_CARD', mb, cap]]
        ups = sum(first)
        for j in range(1, nstreets):
            up = 0 if (j == nstreets - 1 and draw(st.booleans())) else 1
            if ups + up > 4:      # the opening lookups know 1-4 up cards
                up = 0
            ups += up
            amt = mb * (2 if j >= 2 else 1)
            streets.append([int(burn), [up], 0, 0,
                            'LOW_HAND' if low else 'HIGH_HAND', amt, cap])
        total = len(first) + nstreets - 1
        if total >= 5:
            if low:
                opts = [['RegularLowHand'], ['StandardLowHand']]
            else:
                opts = [['StandardHighHand'],
                        ['StandardHighHand', 'EightOrBetterLowHand']]
        else:
            opts = [['BadugiHand']] if low else [['StandardBadugiHand']]
        hts_ = draw(st.sampled_from(opts))
        if len(hts_) == 2 and draw(st.booleans()):
            hts_ = hts_[::-1]
        return dict(
            deck='REGULAR' if low else 'STANDARD',
            hand_types=hts_, structure=structure,
            streets=streets, family=fam, hole=total, board=0,
            burns=int(burn) * (nstreets - 1), stud=True, bring=bring,
            max_n=8,
        )
    # draw family
    ndraws = draw(st.integers(1, 3))
    badugi = draw(st.booleans())
    hole = 4 if badugi else 5
    first = [0] * hole
    if draw(st.integers(0, 2)) == 0:
        # mixed facing in a draw game (some cards dealt face up)
        first = draw(st.lists(st.sampled_from([0, 1]), min_size=hole,
                              max_size=hole))
    streets = [[0, first, 0, 0, 'POSITION', mb, cap]]
    for j in range(ndraws):
        amt = mb * (2 if j >= 1 and ndraws > 1 else 1)
        streets.append([int(burn), [], 0, 1, 'POSITION', amt, cap])
    if badugi:
        opts = [['BadugiHand'], ['StandardBadugiHand']]
    else:
        opts = [['StandardLowHand'], ['StandardHighHand'], ['RegularLowHand']]
    return dict(
        deck='STANDARD', hand_types=draw(st.sampled_from(opts)),
        structure=structure, streets=streets, family=fam, hole=hole, board=0,
        burns=int(burn) * ndraws, stud=False, max_n=7,
    )


@st.composite
def configs(
        draw,
        games=ALL_GAMES,
        custom=True,
        modes=('T', 'C'),
        mask=None,
        mask_strategy=None,
        chips=('int', 'int', 'int', 'frac', 'float', 'dec'),
        rake=True,
        divmods=True,
        boards=(1, 1, 1, 2, 3),
        unknown=False,
        rigs=(None,),
        strict=None,
        side_shows=False,
        inf_stacks=False,
        min_players=2,
        max_players_cap=9,
        profiles=(0, 1, 2, 3, 4, 5),
        short_bias=False,
        stack_styles=None,
        custom_families=None,
):
    game_pool = list(games) + (['CUSTOM'] * max(1, len(games) // 5)
                               if custom else [])
    game = draw(st.sampled_from(game_pool))
    cdesc = None
    nboards = 1
    if game == 'CUSTOM':
        cdesc = draw(custom_game(custom_families))
        stud = cdesc['stud']
        has_board = cdesc['board'] > 0
        if has_board and cdesc['deck'] != 'KUHN_POKER':
            nboards = draw(st.sampled_from(boards))
        size = DECK_SIZE[cdesc['deck']]
        if cdesc['family'] == 'mixed':
            # every street but the last is covered for all players, and the
            # last one can at least be dealt as shared cards (the fall-back
            # may occur, the deck never runs dry: DESIGN 3-1)
            k = cdesc['board']
            nfirst = cdesc['hole'] - k
            nmax = (52 - 2 * nboards - 1 - cdesc['burns']
                    - (k - 1) * nboards) // (nfirst + k - 1)
            nmax = max(2, min(cdesc['max_n'], nmax))
        elif stud:
            nmax = cdesc['max_n']
        else:
            nmax = (size - nboards * cdesc['board'] - cdesc['burns']) \
                // cdesc['hole']
            nmax = max(2, min(cdesc['max_n'], nmax))
        mb = cdesc['streets'][0][5]
        sb_amt, bb_amt = max(1, mb // 2), mb
        small_bet, big_bet = mb, cdesc['streets'][-1][5]
    else:
        stud = game in STUD_GAMES
        if game in BOARD_GAMES:
            nboards = draw(st.sampled_from(boards))
            if game == 'NR':
                nboards = min(nboards, 2)
        nmax = max_players(game, nboards)
        mb = draw(st.sampled_from([2, 2, 4, 10]))
        sig = GAMES[game][1]
        small_bet = mb
        big_bet = 2 * mb if sig in ('blinds2', 'stud') else mb
        sb_amt, bb_amt = max(1, mb // 2), mb
    nmax = min(nmax, max_players_cap)
    nmin = min(min_players, nmax)
    n = draw(st.one_of(st.integers(nmin, min(nmax, max(nmin, 4))),
                       st.integers(nmin, nmax)))
    mode = draw(st.sampled_from(modes))
    bring_in = 0
    if stud:
        antes = draw(antes_strategy(n, bb_amt, True))
        blinds = [0] * n
        use_bring = cdesc.get('bring', True) if cdesc else True
        if use_bring or not any(antes):
            bring_in = draw(st.sampled_from([1, max(1, small_bet // 2),
                                             max(1, small_bet - 1)]))
            if bring_in >= small_bet:
                bring_in = max(1, small_bet - 1)
        if not any(antes) and not bring_in:
            antes = [1] * n
    else:
        antes = draw(antes_strategy(n, bb_amt, False))
        blinds = draw(blinds_strategy(n, sb_amt, bb_amt))
        if not any(antes) and not any(blinds):
            blinds[1 % n] = bb_amt
    stacks = draw(stacks_strategy(n, sb_amt, bb_amt, short_bias,
                                  stack_styles))
    chip_t = draw(st.sampled_from(chips))
    rk = None
    if rake and (rake == 'always' or draw(st.integers(0, 3)) == 0):
        num, den = draw(st.sampled_from([(0, 1), (3, 100), (5, 100),
                                         (1, 10), (1, 4), (1, 1)]))
        cap = draw(st.sampled_from([None, None, 1, 3, 10]))
        rk = [num, den, cap, draw(st.booleans())]
        if draw(st.integers(0, 3)) == 0:
            # a flat-drop callback instead of the stock percentage rake
            rk = ['flat', draw(st.sampled_from([1, 2, 3, 5])),
                  draw(st.booleans())]
    dm = 'default'
    if divmods and draw(st.integers(0, 5)) == 0:
        dm = 'custom'
    cfg = dict(
        game=game, custom=cdesc, n=n, mode=mode,
        autos=(draw(mask_strategy if mask_strategy is not None else masks())
               if mask is None else mask),
        boards=nboards, trim=draw(st.booleans()),
        antes=list(antes), blinds=list(blinds), bring_in=bring_in,
        sb=small_bet, bb=big_bet, stacks=list(stacks), chip=chip_t,
        rake=rk, divmod=dm, deck_seed=draw(st.integers(0, 10 ** 6)),
        profile=draw(st.sampled_from(profiles)),
        strict=draw(st.booleans()) if strict is None else strict,
        unknown=(unknown if unknown == 'heavy'
                 else bool(unknown) and draw(st.booleans())),
        rig=draw(st.sampled_from(rigs)),
    )
    if draw(st.integers(0, 9)) == 0:
        # the mode given as the equal plain string (Mode is a StrEnum)
        cfg['mode_as_str'] = True
    # cards arguments of operations in another of their documented forms
    # (CardsLike: text, list, one-shot iterator, generator)
    if inf_stacks and chip_t == 'int' and draw(st.integers(0, 2)) == 0:
        # stacks that are "not mentioned": math.inf (README)
        k = draw(st.integers(1, n - 1))
        cfg['inf_stacks'] = sorted(draw(st.lists(
            st.integers(0, n - 1), min_size=k, max_size=k, unique=True)))
    if side_shows and draw(st.booleans()):
        # explicit-index shows while hands are killed / chips moved by hand
        cfg['side_shows'] = True
    form = draw(st.sampled_from([None, None, None, 'list', 'iter', 'gen',
                                 'str']))
    if form:
        cfg['arg_form'] = form
    if mode == 'C' and nboards >= 1 and (
            game in BOARD_GAMES or (cdesc and cdesc['board'] > 0)):
        cfg['force_runouts'] = draw(st.sampled_from([None, None, 2, 2, 3]))
    return cfg


@st.composite
def cases(draw, tape_size=120, **kw):
    cfg = draw(configs(**kw))
    tape = draw(tapes(tape_size))
    return {'config': cfg, 'tape': tape}
