"""The shared history engine: config generator, tape interpreter, observers.

A *case* is ``{'config': {...}, 'tape': [ints]}``; both are plain JSON.  The
interpreter is a deterministic function of the case and of the code under
test: at every quiescent state it lists the enabled operation kinds from the
engine's own ``can_*`` queries, picks one with the tape and draws the
operation's arguments from the tape.  An exhausted tape yields zeros, which
always mean "first enabled kind, default arguments", so every tape ends the
hand.
"""
from __future__ import annotations

import copy
import dataclasses
import math
import random
import traceback
import warnings
from decimal import Decimal
from fractions import Fraction
from math import inf

from . import REPO  # noqa: F401  (sys.path side effect)

import pokerkit
import pokerkit.state as PS
from pokerkit import (
    Automation,
    BettingStructure,
    Card,
    Deck,
    Mode,
    Opening,
    State,
    Street,
)

A = Automation
AUTOMATIONS = (
    A.ANTE_POSTING,
    A.BET_COLLECTION,
    A.BLIND_OR_STRADDLE_POSTING,
    A.CARD_BURNING,
    A.HOLE_DEALING,
    A.BOARD_DEALING,
    A.RUNOUT_COUNT_SELECTION,
    A.HOLE_CARDS_SHOWING_OR_MUCKING,
    A.HAND_KILLING,
    A.CHIPS_PUSHING,
    A.CHIPS_PULLING,
)
FULL_MASK = (1 << len(AUTOMATIONS)) - 1

KINDS = (
    'post_ante',
    'collect_bets',
    'post_blind_or_straddle',
    'burn_card',
    'deal_hole',
    'deal_board',
    'stand_pat_or_discard',
    'fold',
    'check_or_call',
    'post_bring_in',
    'complete_bet_or_raise_to',
    'select_runout_count',
    'show_or_muck_hole_cards',
    'kill_hand',
    'push_chips',
    'pull_chips',
)
CAN = {
    'post_ante': 'can_post_ante',
    'collect_bets': 'can_collect_bets',
    'post_blind_or_straddle': 'can_post_blind_or_straddle',
    'burn_card': 'can_burn_card',
    'deal_hole': 'can_deal_hole',
    'deal_board': 'can_deal_board',
    'stand_pat_or_discard': 'can_stand_pat_or_discard',
    'fold': 'can_fold',
    'check_or_call': 'can_check_or_call',
    'post_bring_in': 'can_post_bring_in',
    'complete_bet_or_raise_to': 'can_complete_bet_or_raise_to',
    'select_runout_count': 'can_select_runout_count',
    'show_or_muck_hole_cards': 'can_show_or_muck_hole_cards',
    'kill_hand': 'can_kill_hand',
    'push_chips': 'can_push_chips',
    'pull_chips': 'can_pull_chips',
}
VERIFY = {
    'post_ante': 'verify_ante_posting',
    'collect_bets': 'verify_bet_collection',
    'post_blind_or_straddle': 'verify_blind_or_straddle_posting',
    'burn_card': 'verify_card_burning',
    'deal_hole': 'verify_hole_dealing',
    'deal_board': 'verify_board_dealing',
    'stand_pat_or_discard': 'verify_standing_pat_or_discarding',
    'fold': 'verify_folding',
    'check_or_call': 'verify_checking_or_calling',
    'post_bring_in': 'verify_bring_in_posting',
    'complete_bet_or_raise_to': 'verify_completion_betting_or_raising_to',
    'select_runout_count': 'verify_runout_count_selection',
    'show_or_muck_hole_cards': 'verify_hole_cards_showing_or_mucking',
    'kill_hand': 'verify_hand_killing',
    'push_chips': 'verify_chips_pushing',
    'pull_chips': 'verify_chips_pulling',
}
# automation -> kind it performs
AUTO_KIND = {
    A.ANTE_POSTING: 'post_ante',
    A.BET_COLLECTION: 'collect_bets',
    A.BLIND_OR_STRADDLE_POSTING: 'post_blind_or_straddle',
    A.CARD_BURNING: 'burn_card',
    A.HOLE_DEALING: 'deal_hole',
    A.BOARD_DEALING: 'deal_board',
    A.RUNOUT_COUNT_SELECTION: 'select_runout_count',
    A.HOLE_CARDS_SHOWING_OR_MUCKING: 'show_or_muck_hole_cards',
    A.HAND_KILLING: 'kill_hand',
    A.CHIPS_PUSHING: 'push_chips',
    A.CHIPS_PULLING: 'pull_chips',
}
BETTING_KINDS = (
    'fold',
    'check_or_call',
    'post_bring_in',
    'complete_bet_or_raise_to',
)
# kind -> documented phase
PHASE = {
    'post_ante': 'ante',
    'collect_bets': 'collect',
    'post_blind_or_straddle': 'blind',
    'burn_card': 'deal',
    'deal_hole': 'deal',
    'deal_board': 'deal',
    'stand_pat_or_discard': 'deal',
    'fold': 'bet',
    'check_or_call': 'bet',
    'post_bring_in': 'bet',
    'complete_bet_or_raise_to': 'bet',
    'select_runout_count': 'showdown',
    'show_or_muck_hole_cards': 'showdown',
    'kill_hand': 'kill',
    'push_chips': 'push',
    'pull_chips': 'pull',
}
OP_KIND = {
    'AntePosting': 'post_ante',
    'BetCollection': 'collect_bets',
    'BlindOrStraddlePosting': 'post_blind_or_straddle',
    'CardBurning': 'burn_card',
    'HoleDealing': 'deal_hole',
    'BoardDealing': 'deal_board',
    'StandingPatOrDiscarding': 'stand_pat_or_discard',
    'Folding': 'fold',
    'CheckingOrCalling': 'check_or_call',
    'BringInPosting': 'post_bring_in',
    'CompletionBettingOrRaisingTo': 'complete_bet_or_raise_to',
    'RunoutCountSelection': 'select_runout_count',
    'HoleCardsShowingOrMucking': 'show_or_muck_hole_cards',
    'HandKilling': 'kill_hand',
    'ChipsPushing': 'push_chips',
    'ChipsPulling': 'pull_chips',
}


def op_kind(operation):
    return OP_KIND.get(type(operation).__name__)


# ---------------------------------------------------------------------------
# games

# key -> (class name, signature kind, hole cards, board cards, max players)
GAMES = {
    'FT': ('FixedLimitTexasHoldem', 'blinds2', 2, 5, 9),
    'NT': ('NoLimitTexasHoldem', 'blinds1', 2, 5, 9),
    'NR': ('NoLimitRoyalHoldem', 'blinds1', 2, 5, 6),
    'NS': ('NoLimitShortDeckHoldem', 'blinds1', 2, 5, 9),
    'PO': ('PotLimitOmahaHoldem', 'blinds1', 4, 5, 9),
    'FO8': ('FixedLimitOmahaHoldemHighLowSplitEightOrBetter', 'blinds2', 4, 5,
            9),
    'F7S': ('FixedLimitSevenCardStud', 'stud', 7, 0, 8),
    'F7S8': ('FixedLimitSevenCardStudHighLowSplitEightOrBetter', 'stud', 7, 0,
             8),
    'FR': ('FixedLimitRazz', 'stud', 7, 0, 8),
    'N2L1D': ('NoLimitDeuceToSevenLowballSingleDraw', 'blinds1', 5, 0, 7),
    'F2L3D': ('FixedLimitDeuceToSevenLowballTripleDraw', 'blinds2', 5, 0, 7),
    'FB': ('FixedLimitBadugi', 'blinds2', 4, 0, 7),
}
BOARD_GAMES = ('FT', 'NT', 'NR', 'NS', 'PO', 'FO8')
STUD_GAMES = ('F7S', 'F7S8', 'FR')
DRAW_GAMES = ('N2L1D', 'F2L3D', 'FB')
DECK_SIZE = {
    'STANDARD': 52, 'REGULAR': 52, 'SHORT_DECK_HOLDEM': 36, 'ROYAL_POKER': 20,
    'KUHN_POKER': 3,
}


def chip(cfg, v):
    """Convert an integer design value into the config's chip type."""
    t = cfg.get('chip', 'int')

    if v is None:
        return None
    if t == 'int':
        return int(v)
    if t == 'frac':
        return Fraction(int(v), 3)
    if t == 'float':
        return int(v) * 0.25
    if t == 'dec':
        # "dollar values with two decimal places" (docs/simulation.rst)
        return (Decimal(int(v)) / Decimal(4)).quantize(Decimal('0.01'))
    if t == 'decn':
        # the same values in normalised form (Decimal('1E+2') for 100)
        return (Decimal(int(v)) / Decimal(4)).normalize()
    raise ValueError(t)


def chip_unit(cfg):
    return chip(cfg, 1)


def _chunk_divmod(dividend, divisor):
    """A valid user divmod: quotient in whole multiples of 5 chips."""
    q = (dividend // (divisor * 5)) * 5
    return q, dividend - q * divisor


def make_rake(cfg):
    r = cfg.get('rake')
    if not r:
        return None
    if r[0] == 'flat':
        # a user-supplied callback: the house drops a flat fee from every
        # pot (the whole pot when it is smaller) - parts add up, both are
        # non-negative, which is all the documented contract asks for
        _, drop, nfnd = r
        dropv = chip(cfg, drop)

        def flat_rake_fn(amount, state=None):
            if nfnd and state is not None and not any(state.board_cards):
                return 0 * amount, amount
            raked = min(amount, dropv)
            return raked, amount - raked

        return flat_rake_fn
    num, den, cap, nfnd = r
    t = cfg.get('chip', 'int')
    if t == 'frac':
        pct = Fraction(num, den)
    elif t in ('dec', 'decn'):
        pct = Decimal(num) / Decimal(den)
    else:
        pct = num / den
    capv = inf if cap is None else chip(cfg, cap)

    def rake_fn(amount, state=None):
        return pokerkit.rake(
            amount, state, percentage=pct, cap=capv, no_flop_no_drop=nfnd,
        )

    return rake_fn


def mask_to_autos(mask):
    return tuple(a for i, a in enumerate(AUTOMATIONS) if mask >> i & 1)


def custom_streets(desc):
    streets = []
    for burn, hole, board, draw, opening, amt, cnt in desc['streets']:
        streets.append(
            Street(
                bool(burn), tuple(bool(x) for x in hole), int(board),
                bool(draw), Opening[opening], amt, cnt,
            ),
        )
    return tuple(streets)


def det_shuffled(values):
    """Pure replacement for ``pokerkit.state.shuffled``.

    A deterministic permutation of the multiset (the engine's own queries
    otherwise consume the global RNG, which would make twin runs diverge for
    a reason no property is about).
    """
    v = sorted(values, key=lambda c: (str(c.rank), str(c.suit)))
    r = random.Random(len(v) * 7919 + 17)
    r.shuffle(v)
    return v


_ORIG_SHUFFLED = getattr(PS, 'shuffled', None)


def patch_shuffled(on=True):
    if _ORIG_SHUFFLED is None:
        return
    PS.shuffled = det_shuffled if on else _ORIG_SHUFFLED


LOW_RANKS = 'A2345678'


def _rigged_shuffle(cfg):
    """Seeded shuffle followed by a stable re-ordering that makes the
    situations the award properties care about frequent (qualifying lows,
    ties, paired boards).  Only the order of the deck changes."""
    rig = cfg.get('rig')

    def f(x):
        random.shuffle(x)
        if not rig:
            return
        cards = list(x)
        if rig == 'low':
            first = [c for c in cards if str(c.rank.value) in LOW_RANKS]
        elif rig == 'fewranks':
            ranks = sorted({str(c.rank.value) for c in cards})
            r = random.Random(cfg['deck_seed'])
            keep = set(r.sample(ranks, min(4, len(ranks))))
            first = [c for c in cards if str(c.rank.value) in keep]
        elif rig == 'boardplays':
            # hold'em family: the five community cards will be a royal flush
            # (the board plays for everybody) when the engine deals
            n = cfg['n']
            want = ['A', 'K', 'Q', 'J', 'T']
            royal = [c for c in cards if str(c.suit.value) == 's'
                     and str(c.rank.value) in want]
            if len(royal) == 5 and len(cards) >= 2 * n + 8:
                rest = [c for c in cards if c not in royal]
                slots = [2 * n + 1, 2 * n + 2, 2 * n + 3, 2 * n + 5,
                         2 * n + 7]
                out = []
                ri = iter(royal)
                it_ = iter(rest)
                for pos in range(len(cards)):
                    out.append(next(ri) if pos in slots else next(it_))
                x.clear()
                x.extend(out)
            return
        elif rig == 'suited':
            r = random.Random(cfg['deck_seed'])
            suit = r.choice('cdhs')
            first = [c for c in cards if str(c.suit.value) == suit]
        else:
            first = []
        rest = [c for c in cards if c not in first]
        x.clear()
        x.extend(first + rest)

    return f


def build_state(cfg, mask=None, deck_seed=None):
    """Create the state a config describes (may raise what the engine does)."""
    if cfg.get('rig') and hasattr(PS, 'shuffle'):
        old = PS.shuffle
        PS.shuffle = _rigged_shuffle(cfg)
        try:
            return _build_state(cfg, mask, deck_seed)
        finally:
            PS.shuffle = old
    return _build_state(cfg, mask, deck_seed)


def _build_state(cfg, mask=None, deck_seed=None):
    autos = mask_to_autos(cfg['autos'] if mask is None else mask)
    mode = Mode.TOURNAMENT if cfg['mode'] == 'T' else Mode.CASH_GAME
    if cfg.get('mode_as_str'):
        mode = str(mode.value)
    antes = [chip(cfg, v) for v in cfg['antes']]
    blinds = [chip(cfg, v) for v in cfg['blinds']]
    stacks = [chip(cfg, v) for v in cfg['stacks']]
    for i in cfg.get('inf_stacks') or ():
        # the documented way to say "this stack is not known" (README)
        if i < len(stacks):
            stacks[i] = math.inf
    n = cfg['n']
    kw = dict(mode=mode, starting_board_count=cfg.get('boards', 1))
    rk = make_rake(cfg)
    if rk is not None:
        kw['rake'] = rk
    if cfg.get('divmod', 'default') == 'custom':
        kw['divmod'] = _chunk_divmod
    random.seed(cfg['deck_seed'] if deck_seed is None else deck_seed)
    game = cfg['game']
    if game == 'CUSTOM':
        d = cfg['custom']
        streets = []
        shared = {}
        for burn, hole, board, draw, opening, amt, cnt in d['streets']:
            street = Street(
                bool(burn), tuple(bool(x) for x in hole), int(board),
                bool(draw), Opening[opening], chip(cfg, amt), cnt,
            )
            if d.get('share_streets'):
                # equal definitions are one object, used more than once
                street = shared.setdefault(
                    repr((burn, hole, board, draw, opening, amt, cnt)),
                    street)
            streets.append(street)
        return State(
            autos,
            Deck[d['deck']],
            tuple(getattr(pokerkit, h) for h in d['hand_types']),
            tuple(streets),
            BettingStructure[d['structure']],
            cfg['trim'],
            antes,
            blinds,
            chip(cfg, cfg['bring_in']),
            stacks,
            n,
            **kw,
        )
    cls_name, sig, _, _, _ = GAMES[game]
    cls = getattr(pokerkit, cls_name)
    sb, bb = chip(cfg, cfg['sb']), chip(cfg, cfg['bb'])
    if cfg.get('via_game'):
        # game object first (needed by HandHistory.from_game_state)
        if sig == 'blinds2':
            g = cls(autos, cfg['trim'], antes, blinds, sb, bb, **kw)
        elif sig == 'blinds1':
            g = cls(autos, cfg['trim'], antes, blinds, sb, **kw)
        else:
            g = cls(autos, cfg['trim'], antes, chip(cfg, cfg['bring_in']),
                    sb, bb, **kw)
        st_ = g(stacks, n)
        st_._pkv_game = g
        return st_
    if sig == 'blinds2':
        return cls.create_state(
            autos, cfg['trim'], antes, blinds, sb, bb, stacks, n, **kw,
        )
    if sig == 'blinds1':
        return cls.create_state(
            autos, cfg['trim'], antes, blinds, sb, stacks, n, **kw,
        )
    if sig == 'stud':
        return cls.create_state(
            autos, cfg['trim'], antes, chip(cfg, cfg['bring_in']), sb, bb,
            stacks, n, **kw,
        )
    raise ValueError(sig)


# ---------------------------------------------------------------------------
# observers on State._update

_OBSERVERS = []
_ORIG_UPDATE = None


def _wrapped_update(self, operation=None):
    _ORIG_UPDATE(self, operation)
    for ob in _OBSERVERS:
        ob(self, operation)


def install_update_hook():
    global _ORIG_UPDATE
    if _ORIG_UPDATE is None and hasattr(State, '_update'):
        _ORIG_UPDATE = State._update
        State._update = _wrapped_update
    return _ORIG_UPDATE is not None


class observing:
    """Context manager registering observers ``f(state, operation)``."""

    def __init__(self, *obs):
        self.obs = obs

    def __enter__(self):
        install_update_hook()
        _OBSERVERS.extend(self.obs)
        return self

    def __exit__(self, *exc):
        for ob in self.obs:
            _OBSERVERS.remove(ob)
        return False


class unobserved:
    """Suspends the registered observers (for operations on a scratch copy
    that is not part of the history being judged)."""

    def __enter__(self):
        self.saved = list(_OBSERVERS)
        del _OBSERVERS[:]
        return self

    def __exit__(self, *exc):
        _OBSERVERS[:] = self.saved
        return False


# ---------------------------------------------------------------------------
# snapshots

_SKIP_FIELDS = ('automations', 'divmod', 'rake')


_PRIVATE_COMPARED = ('_pots', '_sub_pots')


def snapshot(state, deck_order=True):
    """Every public dataclass field (plus the frozen pots of the settlement).
    Other private fields are not part of "the state" any property speaks
    about: a correctly invalidated cache may legitimately differ between two
    runs that read different things."""
    d = {}
    for f in dataclasses.fields(state):
        if f.name in _SKIP_FIELDS:
            continue
        if f.name.startswith('_') and f.name not in _PRIVATE_COMPARED:
            continue
        d[f.name] = copy.deepcopy(getattr(state, f.name))
    if not deck_order:
        d['deck_cards'] = sorted(map(repr, d['deck_cards']))
    return d


def snapshot_diff(a, b):
    return sorted(k for k in set(a) | set(b) if a.get(k) != b.get(k))


# ---------------------------------------------------------------------------
# exception classification

class HarnessError(Exception):
    pass


class Discard(Exception):
    """The stated precondition of the property's domain does not hold."""


NOT_ENOUGH_CARDS = 'There are not enough cards to be dealt'


# user callbacks the harness hands to the engine (transparent for triage)
_CALLBACKS = ('_chunk_divmod', 'rake_fn', 'flat_rake_fn')


def innermost_repo_frame(exc):
    tb = traceback.extract_tb(exc.__traceback__)
    fr = None
    for f in tb:
        if '/pokerkit/' in f.filename and '/pkv/' not in f.filename:
            fr = f
    return fr


def is_engine_exception(exc):
    """True when the innermost frame is pokerkit's (not the harness')."""
    tb = [
        f for f in traceback.extract_tb(exc.__traceback__)
        if f.name not in _CALLBACKS
    ]
    if not tb:
        return False
    last = tb[-1]
    if '/pkv/' in last.filename:
        return False
    return innermost_repo_frame(exc) is not None


def exc_key(exc):
    fr = innermost_repo_frame(exc)
    where = f'{fr.name}' if fr else '?'
    return f'{type(exc).__name__}@{where}'


# ---------------------------------------------------------------------------
# tape

class Tape:
    def __init__(self, values):
        self.values = list(values)
        self.pos = 0

    def next(self):
        if self.pos < len(self.values):
            v = self.values[self.pos]
        else:
            v = 0
        self.pos += 1
        return v

    @property
    def exhausted(self):
        return self.pos >= len(self.values)


# betting weights (check/call, raise, fold) per policy profile
PROFILES = {
    0: (70, 15, 15),   # passive
    1: (35, 55, 10),   # aggressive
    2: (40, 52, 8),    # all-in happy (raise variants biased to max)
    3: (45, 20, 35),   # fold heavy
    4: (60, 30, 10),   # dealer explicit (more explicit args)
    5: (80, 20, 0),    # never folds: multi-way showdowns
    6: (96, 4, 0),     # check-down: multi-way showdowns with chips behind
}


def cards_known(cards):
    return all(bool(c) for c in cards)


class Interp:
    """Drives one hand from (config, tape)."""

    MAX_STEPS = 4000

    def __init__(self, cfg, tape, state=None, mask=None, hooks=None):
        self.cfg = cfg
        self.tape = tape if isinstance(tape, Tape) else Tape(tape)
        self.hooks = hooks
        self.mask = cfg['autos'] if mask is None else mask
        self.state = state if state is not None else build_state(cfg, mask)
        self.steps = []          # (kind, args) performed by the interpreter
        self.excluded = 0        # choices replaced because of known findings
        self.exclusions = {}
        self.unit = chip_unit(cfg)
        self.last_commentary = None

    # ---- enabled kinds ----------------------------------------------------
    def enabled(self):
        s = self.state
        out = []
        for k in KINDS:
            if getattr(s, CAN[k])():
                out.append(k)
        if not out and s.status and self.cfg.get('unknown') \
                and s.showdown_indices and not cards_known(
                    s.hole_cards[s.showdown_indices[0]]):
            # unknown face-down cards: the default query cannot say yes;
            # the player tables explicit known cards (or mucks)
            out.append('show_or_muck_hole_cards')
        return out

    # ---- one step ---------------------------------------------------------
    def _side_show(self):
        """While no street is in progress but the hand is not over (hands are
        being killed, chips pushed or pulled by hand) a player who is still
        in may table his face-down cards by explicit index - the documented
        non-standard show.  ``cfg['side_shows']``."""
        s = self.state
        if not self.cfg.get('side_shows') or s.street is not None \
                or not s.status or self.tape.next() % 3:
            return None
        live = [i for i in s.player_indices if s.statuses[i]
                and s.hole_cards[i] and not all(s.hole_card_statuses[i])
                and all(bool(c) for c in s.hole_cards[i])]
        if not live:
            return None
        i = self._pick(live, self.tape.next())
        if not s.can_show_or_muck_hole_cards(True, i):
            return None
        kind, args = 'show_or_muck_hole_cards', (True, i)
        if self.hooks is not None:
            self.hooks.before(self, kind, args)
        n0 = len(s.operations)
        result = s.show_or_muck_hole_cards(True, i)
        self.steps.append((kind, args))
        self.side_show_ops = getattr(self, 'side_show_ops', []) + [n0]
        if self.hooks is not None:
            self.hooks.after(self, kind, args, result)
        return kind

    def step(self):
        s = self.state
        kinds = self.enabled()
        if not kinds:
            return None
        done = self._side_show()
        if done is not None:
            return done
        t = self.tape
        betting = [k for k in kinds if k in BETTING_KINDS]
        if betting:
            kind = self._choose_betting(betting)
        elif len(kinds) == 1:
            kind = kinds[0]
        else:
            kind = kinds[t.next() % len(kinds)]
        args = self._choose_args(kind)
        if self.hooks is not None:
            self.hooks.before(self, kind, args)
        self.last_commentary = None
        if self.cfg.get('commentary') and len(s.operations) % 3 == 0:
            self.last_commentary = f'note {len(s.operations)}: {kind}'
            result = getattr(s, kind)(
                *self._formed(args), commentary=self.last_commentary,
            )
        else:
            result = getattr(s, kind)(*self._formed(args))
        self.steps.append((kind, args))
        if self.hooks is not None:
            self.hooks.after(self, kind, args, result)
        return kind

    def _formed(self, args):
        """The documented type of a cards argument is ``CardsLike``: text,
        one card, or any iterable of cards - a list, a one-shot iterator or a
        generator as well as a tuple (``cfg['arg_form']``)."""
        form = self.cfg.get('arg_form')
        if not form:
            return args
        out = []
        for a in args:
            if isinstance(a, tuple) and a and all(
                    isinstance(c, Card) for c in a):
                a = {'list': list, 'iter': lambda x: iter(list(x)),
                     'gen': lambda x: (c for c in x),
                     'str': lambda x: ''.join(map(repr, x))}[form](a)
            out.append(a)
        return tuple(out)

    def run(self, max_steps=None):
        limit = max_steps or self.MAX_STEPS
        count = 0
        while self.state.status:
            if self.hooks is not None:
                self.hooks.quiescent(self)
            k = self.step()
            if k is None:
                if self._out_of_cards():
                    # the stated deck-size precondition does not hold
                    raise Discard('a deal is pending and no card is left')
                return 'stuck'
            count += 1
            if count >= limit:
                return 'long'
        if self.hooks is not None:
            self.hooks.quiescent(self)
        return 'done'

    def _out_of_cards(self):
        s = self.state
        pending = s.card_burning_status or any(s.board_dealing_counts) \
            or any(len(x) for x in s.hole_dealing_statuses)
        if not pending:
            return False
        for verify in (s.verify_card_burning, s.verify_board_dealing,
                       s.verify_hole_dealing):
            try:
                verify()
            except ValueError as e:
                if NOT_ENOUGH_CARDS in str(e):
                    return True
            except Exception:  # noqa: BLE001
                pass
        return False

    # ---- choices ------------------------------------------------------------
    def _exclude(self, name):
        self.excluded += 1
        self.exclusions[name] = self.exclusions.get(name, 0) + 1

    def _choose_betting(self, betting):
        w_call, w_raise, w_fold = PROFILES[self.cfg.get('profile', 0)]
        v = self.tape.next()
        s = self.state
        if 'post_bring_in' in betting:
            # bring-in pending: post (default) or complete
            if 'complete_bet_or_raise_to' in betting and v % 100 >= 70:
                return 'complete_bet_or_raise_to'
            return 'post_bring_in'
        opts = []
        if 'check_or_call' in betting:
            opts.append(('check_or_call', w_call))
        if 'complete_bet_or_raise_to' in betting:
            opts.append(('complete_bet_or_raise_to', w_raise))
        if 'fold' in betting and w_fold:
            if self._fold_ok():
                opts.append(('fold', w_fold))
        total = sum(w for _, w in opts)
        x = v % total
        for k, w in opts:
            if x < w:
                return k
            x -= w
        return opts[0][0]

    def _fold_ok(self):
        """A fold is generated unless it falls under a known finding."""
        return True

    def _pick(self, seq, v):
        return seq[v % len(seq)]

    def _choose_args(self, kind):
        s = self.state
        t = self.tape
        explicit_bias = self.cfg.get('profile', 0) == 4
        if kind in ('post_ante', 'post_blind_or_straddle', 'kill_hand',
                    'pull_chips'):
            a = t.next()
            if a % 3 == 0 and not (explicit_bias and a):
                return ()
            idx = {
                'post_ante': s.ante_poster_indices,
                'post_blind_or_straddle': s.blind_or_straddle_poster_indices,
                'kill_hand': s.hand_killing_indices,
                'pull_chips': s.chips_pulling_indices,
            }[kind]
            idx = list(idx)
            return (self._pick(idx, a // 3),)
        if kind in ('collect_bets', 'fold', 'check_or_call', 'post_bring_in',
                    'push_chips'):
            return ()
        if kind == 'burn_card':
            a = t.next()
            m = a % 4
            heavy = self.cfg.get('unknown') == 'heavy'
            if (m == 0 or m == 3) and not (heavy and m == 3):
                return ()
            if (m == 2 or heavy) and self.cfg.get('unknown'):
                return ('??',)
            dealable = list(s.get_dealable_cards(1))
            return (self._pick(dealable, a // 4),)
        if kind == 'deal_hole':
            return self._args_deal_hole()
        if kind == 'deal_board':
            return self._args_deal_board()
        if kind == 'stand_pat_or_discard':
            a = t.next()
            i = s.stander_pat_or_discarder_index
            hole = list(s.hole_cards[i])
            if self.cfg.get('discard_heavy') and a % 4:
                # a table of big drawers: the deck runs out during the draws
                a |= 0b11111 if a % 4 > 1 else 0b10111
            if a == 0:
                return ()
            chosen = tuple(
                c for j, c in enumerate(hole) if (a >> j) & 1 and c
            )
            # duplicates of the unknown card cannot be addressed individually
            return (chosen,)
        if kind == 'complete_bet_or_raise_to':
            return self._args_cbr()
        if kind == 'select_runout_count':
            return self._args_runout()
        if kind == 'show_or_muck_hole_cards':
            return self._args_show()
        raise HarnessError(kind)

    def _pending_hole(self):
        s = self.state
        return [
            i for i in s.player_indices if len(s.hole_dealing_statuses[i])
        ]

    def _args_deal_hole(self):
        s = self.state
        a = self.tape.next()
        m = a % 6
        if m == 5 and self.cfg.get('unknown') == 'heavy':
            m = 4
        if m == 0 or m == 5:
            return ()
        pend = self._pending_hole()
        if m == 1:
            # several cards at once for the default dealee
            i = s.hole_dealee_index
            k = 1 + (a // 6) % len(s.hole_dealing_statuses[i])
            return (k,)
        if m == 2:
            i = self._pick(pend, a // 6)
            return (None, i)
        if m == 3:
            i = self._pick(pend, a // 6)
            k = 1 + (a // 48) % len(s.hole_dealing_statuses[i])
            down = not any(list(s.hole_dealing_statuses[i])[:k])
            cards = self._explicit_cards(k, a // 6, down)
            if cards is None:
                return (None, i)
            return (cards, i)
        # m == 4: explicit single card, default dealee
        i = s.hole_dealee_index
        down = not s.hole_dealing_statuses[i][0]
        cards = self._explicit_cards(1, a // 6, down)
        if cards is None:
            return ()
        return (cards,)

    def _explicit_cards(self, k, v, down=False):
        s = self.state
        # the "recommended" cards for a deal of k (DESIGN 3-5): reserve piles
        # only once the deck cannot cover the deal
        dealable = list(s.get_dealable_cards(k))
        if len(dealable) < k:
            return None
        out = []
        for j in range(k):
            if down and self.cfg.get('unknown') and (v >> (3 * j)) % (
                    3 if self.cfg['unknown'] == 'heavy' else 5) == 0:
                # only face-down hole cards may be unknown (what a hand
                # history leaves out); up cards and boards stay known
                out.append(Card.UNKNOWN)
                continue
            c = dealable.pop((v + 7 * j) % len(dealable))
            out.append(c)
        return tuple(out)

    def _args_deal_board(self):
        s = self.state
        a = self.tape.next()
        m = a % 5
        if m == 0 or m == 4:
            return ()
        cnt = s.board_dealing_count
        if m == 1:
            cards = self._explicit_cards(cnt, a // 5)
            return () if cards is None else (cards,)
        if m == 2:
            k = 1 + (a // 5) % cnt
            return (k,)
        k = 1 + (a // 5) % cnt
        cards = self._explicit_cards(k, a // 25)
        return () if cards is None else (cards,)

    def _args_cbr(self):
        s = self.state
        a = self.tape.next()
        lo = s.min_completion_betting_or_raising_to_amount
        hi = s.max_completion_betting_or_raising_to_amount
        pot = s.pot_completion_betting_or_raising_to_amount
        u = self.unit
        if hi is not None and lo is not None and hi == math.inf:
            # an unknown (infinite) stack: stay within sight of the minimum
            hi = lo + 40 * u
            if pot is not None and pot == math.inf:
                pot = hi
        m = a % 8
        if self.cfg.get('profile', 0) == 2 and a % 3 == 1:
            m = 2
        if a == 0 or m == 0:
            return ()
        if m == 1:
            return (lo,)
        if m == 2:
            return (hi,)
        if m == 3:
            return (min(max(pot, lo), hi),)
        if m == 4:
            return (lo + u if lo + u <= hi else lo,)
        if m == 5:
            return (hi - u if hi - u >= lo else hi,)
        span = int((hi - lo) / u) if hi > lo else 0
        if m == 6:
            return (lo + (span // 2) * u,)
        k = self.tape.next() % (span + 1)
        return (lo + k * u,)

    def max_runouts_affordable(self):
        """Deck-size precondition (DESIGN 3-1): bound the run-out count."""
        s = self.state
        si = s.street_index
        if si is None:
            return 1
        need = 0
        for st_ in s.streets[si + 1:]:
            need += (st_.board_dealing_count + len(st_.hole_dealing_statuses)
                     * sum(s.statuses)) * 1
            need += 1 if st_.card_burning_status else 0
        need_boards = 0
        for st_ in s.streets[si + 1:]:
            need_boards += st_.board_dealing_count * s.starting_board_count
            need_boards += 1 if st_.card_burning_status else 0
        if not need_boards:
            return 1
        avail = len(s.deck_cards)
        r = 1
        while (r + 1) * need_boards <= avail and r < 4:
            r += 1
        return r

    def _args_runout(self):
        s = self.state
        a = self.tape.next()
        m = a % 6
        idx = list(s.runout_count_selector_indices)
        cap = self.max_runouts_affordable()
        player = None
        if (a // 6) % 3 == 1:
            player = self._pick(idx, a // 18)
        if self.cfg.get('force_runouts') and not self.cfg.get('single_runout') \
                and a % 8:
            # the table habitually runs it twice (or three times): most
            # selectors ask for the same count, so that it is agreed upon
            cnt = min(self.cfg['force_runouts'], cap)
        elif m == 0 or m == 5 or self.cfg.get('single_runout'):
            cnt = None
        else:
            cnt = min(m if m <= 3 else 2, cap)
        if player is None:
            return (cnt,) if cnt is not None else ()
        return (cnt, player)

    def muck_allowed(self):
        """Voluntary mucks are generated only when somebody stays live and
        every pot keeps an eligible live player (DESIGN 3-8; F1 is a known
        finding pinned by the repository's own test)."""
        s = self.state
        if s.mode == Mode.TOURNAMENT and s.all_in_status:
            # in tournament mode an all-in showdown is played face up
            return False
        return sum(s.statuses) >= 2

    def _tables_a_hand(self, i, shown):
        """Known finding F1 family: at the final showdown the cards a player
        does not table are forgotten; a partial show is generated only if the
        tabled cards still make a hand (before the final street the engine
        keeps the face-down cards, so any subset is fine)."""
        s = self.state
        if s.street_index != len(s.streets) - 1:
            return True
        for j in s.board_indices:
            board = tuple(s.get_board_cards(j))
            for ht in s.hand_types:
                try:
                    if ht.from_game_or_none(shown, board) is not None:
                        return True
                except Exception:  # noqa: BLE001
                    pass
        return False

    def _args_show(self):
        s = self.state
        a = self.tape.next()
        i = s.showdown_index
        if i is None and s.showdown_indices:
            i = s.showdown_indices[0]
        hole = list(s.hole_cards[i]) if i is not None else []
        unknown = not cards_known(hole)
        m = a % 6
        mode_ = self.cfg.get('auto_show')
        final = s.street_index == len(s.streets) - 1
        if mode_ == 'partial_first' and not unknown and not final \
                and s.mode == Mode.CASH_GAME and len(hole) > 1 and a % 2:
            # at an all-in showdown before the last street a player tables
            # only part of his hand (his choice); the later showdown is left
            # to the engine, which must still table what can win
            k = 1 + (a // 2) % (len(hole) - 1)
            if s.can_show_or_muck_hole_cards(tuple(hole[:k])):
                return (tuple(hole[:k]),)
        if mode_ == 'with_empty_shows' and not unknown and final \
                and s.mode == Mode.CASH_GAME and a % 4 == 1 \
                and self._tables_a_hand(i, ()) \
                and s.can_show_or_muck_hole_cards(()):
            # the documented face-down "show": nothing is tabled, the board
            # plays (only where the board alone is a hand)
            self.empty_shows = getattr(self, 'empty_shows', 0) + 1
            return ((),)
        if self.cfg.get('auto_show') and not unknown:
            if self.cfg['auto_show'] == 'any_order' and a % 3:
                # the engine still decides, but for a tape-chosen player
                # among those still to show (out of turn)
                pend = list(s.showdown_indices)
                if pend:
                    return (None, self._pick(pend, a // 3))
            return ()
        if unknown:
            # the hand must be made known (or mucked): C07's stated domain
            if m == 4 and self.muck_allowed():
                return (False,)
            k = sum(1 for c in hole if not c)
            dealable = [c for c in s.get_dealable_cards(k)]
            if len(dealable) < k:
                # more placeholders around than real cards left (full stud
                # table recorded with many unseen cards): the hand cannot be
                # made known - muck it, or leave the stated domain
                if self.muck_allowed():
                    return (False,)
                raise Discard('not enough real cards to table the hand')
            cards = []
            v = a // 6
            for c in hole:
                if c:
                    cards.append(c)
                else:
                    cards.append(dealable.pop(v % len(dealable)))
                    v //= 3
            return (tuple(cards),)
        if m == 0:
            return ()
        if m == 5:
            # out of turn: any player still to show, by explicit index
            pend = list(s.showdown_indices)
            j = self._pick(pend, a // 6)
            hj = tuple(s.hole_cards[j])
            if cards_known(hj):
                sub = (a // 6) % 4
                if sub == 3:
                    # the engine decides for a player acting out of turn
                    return (None, j)
                return (hj if sub % 2 else True, j)
            return ()
        if m == 1:
            return (True,)
        if m == 2:
            return (tuple(hole),)
        if m == 3:
            if s.mode == Mode.CASH_GAME and len(hole) > 1:
                k = 1 + (a // 6) % (len(hole) - 1)
                if s.can_show_or_muck_hole_cards(tuple(hole[:k])) \
                        and self._tables_a_hand(i, hole[:k]):
                    return (tuple(hole[:k]),)
                self._exclude('partial_show_tabling_no_hand')
            return (True,)
        if m == 4:
            if self.muck_allowed():
                return (False,)
            self._exclude('all_players_muck')
            return ()
        return ()


class Hooks:
    def before(self, interp, kind, args):
        pass

    def after(self, interp, kind, args, result):
        pass

    def quiescent(self, interp):
        pass


class Observe(Hooks):
    """Reads everything a user interface would read, at every quiescent
    state: every public property and every read-only accessor for every
    player / board / hand type.  Looking must not change what happens."""

    _props = None

    def __init__(self, phase=0):
        self.calls = 0
        self.k = phase

    def quiescent(self, it):
        # every third quiescent state (phase chosen by the case): cheap
        # enough to run on every case, dense enough to fall between any two
        # particular operations in a third of the cases
        self.k += 1
        if self.k % 3:
            return
        s = it.state
        cls = type(s)
        if Observe._props is None:
            Observe._props = [n for n in dir(cls) if not n.startswith('_')
                              and isinstance(getattr(cls, n), property)]

        def read(f, *a):
            self.calls += 1
            try:
                r = f(*a)
                if hasattr(r, '__next__'):
                    r = tuple(r)
                return r
            except (ValueError, AssertionError, IndexError, KeyError,
                    TypeError):
                return None

        for n in Observe._props:
            read(getattr, s, n)
        for i in s.player_indices:
            for f in (s.get_censored_hole_cards, s.get_down_cards,
                      s.get_up_cards, s.can_win_now, s.get_effective_ante,
                      s.get_effective_blind_or_straddle):
                read(f, i)
            if sum(s.statuses) > 1 and s.actor_index is not None:
                read(s.get_effective_stack, i)
        nb = read(lambda: s.board_count) or 0
        for j in range(nb):
            read(s.get_board_cards, j)
            for k in s.hand_type_indices:
                read(s.get_up_hands, j, k)
                for i in s.player_indices:
                    read(s.get_hand, i, j, k)
                    read(s.get_up_hand, i, j, k)
        read(s.get_dealable_cards)
        read(s.get_dealable_cards, 1)


class Chain(Hooks):
    """Several hook objects as one."""

    def __init__(self, *hooks):
        self.hooks = [h for h in hooks if h is not None]

    def before(self, interp, kind, args):
        for h in self.hooks:
            h.before(interp, kind, args)

    def after(self, interp, kind, args, result):
        for h in self.hooks:
            h.after(interp, kind, args, result)

    def quiescent(self, interp):
        for h in self.hooks:
            h.quiescent(interp)


def observed_phase(cfg, every=4):
    """In one case out of ``every`` (a pure function of the config) the run
    is an *observed* one: a "user interface" reads every public property and
    accessor between the operations.  Returns the phase, or None."""
    d = cfg.get('deck_seed', 0)
    return d // every if d % every == 1 else None


# ---------------------------------------------------------------------------
# running a case with the warning regime and classification

class Runaway(Exception):
    pass


class Hang(Exception):
    pass


MAX_OPS = 20000
CASE_TIMEOUT_S = 60


def _runaway_observer(state, operation):
    if len(state.operations) > MAX_OPS:
        raise Runaway(f'more than {MAX_OPS} operations')


def _alarm(signum, frame):
    raise Hang(f'case did not finish within {CASE_TIMEOUT_S}s')


class CaseResult:
    __slots__ = ('state', 'interp', 'outcome', 'exc', 'exc_stage')

    def __init__(self):
        self.state = None
        self.interp = None
        self.outcome = None   # done / stuck / long / crash / refused / discard
        self.exc = None
        self.exc_stage = None


def run_case(case, hooks=None, observers=(), mask=None, max_steps=None,
             observed=None):
    """Run (config, tape) to the end.  Never raises engine exceptions;
    harness errors propagate.  ``observed`` (a phase) additionally reads every
    public accessor at every third quiescent state."""
    import signal
    cfg = case['config']
    if observed is not None:
        hooks = Chain(Observe(observed), hooks)
    res = CaseResult()
    patch_shuffled(True)
    old = signal.signal(signal.SIGALRM, _alarm)
    signal.alarm(CASE_TIMEOUT_S)
    try:
        return _run_case(case, cfg, res, hooks, observers, mask, max_steps)
    finally:
        signal.alarm(0)
        signal.signal(signal.SIGALRM, old)


def _run_case(case, cfg, res, hooks, observers, mask, max_steps):
    with warnings.catch_warnings():
        warnings.simplefilter('error' if cfg.get('strict') else 'ignore')
        with observing(_runaway_observer, *observers):
            try:
                res.exc_stage = 'create'
                st = build_state(cfg, mask)
                res.state = st
                it = Interp(cfg, case['tape'], state=st, mask=mask,
                            hooks=hooks)
                res.interp = it
                res.exc_stage = 'run'
                res.outcome = it.run(max_steps)
            except HarnessError:
                raise
            except Discard as e:
                res.exc = e
                res.outcome = 'discard'
            except Runaway as e:
                res.exc = e
                res.outcome = 'runaway'
            except Hang as e:
                # a wall-clock limit is never a verdict: the case is
                # inconclusive (the engine evaluates C(13, 5) hands per player
                # and board in some generated games, which is slow, not
                # stuck; unbounded *operation counts* are caught by the
                # Runaway observer instead)
                res.exc = e
                res.outcome = 'discard'
            except Exception as e:  # noqa: BLE001
                if not is_engine_exception(e):
                    raise
                res.exc = e
                if isinstance(e, ValueError) and NOT_ENOUGH_CARDS in str(e):
                    res.outcome = 'discard'
                elif isinstance(e, (ValueError, UserWarning)):
                    res.outcome = 'refused'
                else:
                    res.outcome = 'crash'
    return res


def describe_op(op):
    name = type(op).__name__
    parts = []
    for f in dataclasses.fields(op):
        if f.name == 'commentary':
            continue
        v = getattr(op, f.name)
        if isinstance(v, tuple):
            v = ''.join(repr(x) for x in v) if v and isinstance(
                v[0], Card) else list(map(str, v))
        parts.append(f'{f.name}={v}')
    return f'{name}({", ".join(map(str, parts))})'


def describe_ops(state, limit=80):
    ops = [describe_op(o) for o in state.operations]
    if len(ops) > limit:
        ops = ops[:limit] + [f'... {len(ops) - limit} more']
    return ops
