"""Debug helper: run a replay/case file and print the operation log and any
engine traceback.  Usage: /venv/bin/python tools/trace.py FILE"""
import json, sys, traceback, os
sys.path.insert(0, os.path.dirname(os.path.dirname(os.path.abspath(__file__))))
from pkv.engine import run_case, describe_ops
rec = json.load(open(sys.argv[1]))
case = rec.get('case', rec)
res = run_case(case)
print('outcome', res.outcome)
if res.state is not None:
    for o in describe_ops(res.state, 400): print('  ', o)
    s = res.state
    print('stacks', s.stacks, 'bets', s.bets, 'statuses', s.statuses, 'pots', list(s.pots) if res.outcome!='crash' else '?')
if res.interp: print('steps', res.interp.steps)
if res.exc is not None:
    traceback.print_exception(res.exc)
