#!/bin/sh
# tools/mutate.sh PATCH ID [ID...]  - apply PATCH to a scratch copy of /repo
# (outside /repo and /verif), run the quick checks there, report exit codes,
# remove the copy.  Evidence/replays of these runs go to the scratch dir.
# With -R as first argument the patch is reverse-applied (un-fix a fix).
REV=""
if [ "$1" = "-R" ]; then REV="-R"; shift; fi
PATCH="$(realpath "$1")"; shift
D=$(mktemp -d /tmp/pkv-mut-XXXXXX)
cp -r /repo/pokerkit "$D/pokerkit"
( cd "$D" && patch $REV -p1 -s < "$PATCH" ) || { echo "PATCH-FAILED $PATCH"; rm -rf "$D"; exit 3; }
cd "$(dirname "$0")/.." || exit 2
for ID in "$@"; do
  PKV_REPO="$D" PKV_EVIDENCE_DIR="$D/evidence" PKV_REPLAY_DIR="$D/replays" ./check "$ID" --tier "${TIER:-quick}" > "$D/out.$ID" 2>&1
  code=$?
  echo "MUTANT $(basename "$PATCH") $ID exit=$code $(grep -c '^VIOLATION' "$D/out.$ID") violation line(s): $(grep '^VIOLATION' "$D/out.$ID" | head -2 | cut -c1-260)"
done
rm -rf "$D"
