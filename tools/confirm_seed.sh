#!/bin/sh
# tools/confirm_seed.sh SRC_DIR  - independently confirm a seeded defect:
# scratch worktree of /repo HEAD, apply patch.diff, demo must fail, the pinned
# suite must pass; without the patch the demo must pass.  On success copies
# patch.diff, demo.py, meta.json (+ confirm.json) to /verif/seeded/<id>/.
SRC="$1"; ID=$(basename "$SRC")
WT=/tmp/cs/$ID
mkdir -p /tmp/cs
git -C /repo worktree add -q --detach "$WT" HEAD || exit 2
cd "$WT" || exit 2
R_APPLY=fail; R_DEMO_WITH=?; R_TESTS=?; R_DEMO_WITHOUT=?
if git apply "$SRC/patch.diff" 2>/dev/null; then
  R_APPLY=ok
  PYTHONPATH="$WT" /venv/bin/python "$SRC/demo.py" > "$WT/.demo_with.out" 2>&1; R_DEMO_WITH=$?
  /venv/bin/python -m pytest -q -p no:cacheprovider -n 8 > "$WT/.tests.out" 2>&1; R_TESTS=$?
  TSUM=$(tail -1 "$WT/.tests.out")
  git checkout -q -- .
  PYTHONPATH="$WT" /venv/bin/python "$SRC/demo.py" > "$WT/.demo_without.out" 2>&1; R_DEMO_WITHOUT=$?
fi
OK=no
if [ "$R_APPLY" = ok ] && [ "$R_DEMO_WITH" != 0 ] && [ "$R_TESTS" = 0 ] && [ "$R_DEMO_WITHOUT" = 0 ]; then OK=yes; fi
echo "CONFIRM $ID apply=$R_APPLY demo_with_change_exit=$R_DEMO_WITH tests_exit=$R_TESTS ($TSUM) demo_without_exit=$R_DEMO_WITHOUT confirmed=$OK"
if [ "$OK" = yes ]; then
  mkdir -p /verif/seeded/$ID
  cp "$SRC/patch.diff" "$SRC/demo.py" "$SRC/meta.json" /verif/seeded/$ID/
  printf '{"confirmed_by": "tools/confirm_seed.sh", "demo_with_change_exit": %s, "tests_exit": %s, "tests_summary": "%s", "demo_without_change_exit": %s}\n' "$R_DEMO_WITH" "$R_TESTS" "$TSUM" "$R_DEMO_WITHOUT" > /verif/seeded/$ID/confirm.json
fi
cd /; git -C /repo worktree remove --force "$WT"
