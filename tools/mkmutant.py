"""tools/mkmutant.py NAME FILE <<< 'old\n===\nnew'  - write mutants/NAME.patch
replacing the unique occurrence of old by new in /repo/pokerkit/FILE."""
import sys, difflib, os
name, fname = sys.argv[1], sys.argv[2]
old, new = sys.stdin.read().split('\n===\n')
new = new.rstrip('\n'); old = old.rstrip('\n')
src = open(f'/repo/pokerkit/{fname}').read()
assert src.count(old) == 1, f'occurrences: {src.count(old)}'
dst = src.replace(old, new)
diff = ''.join(difflib.unified_diff(src.splitlines(True), dst.splitlines(True), f'a/pokerkit/{fname}', f'b/pokerkit/{fname}'))
out = os.path.join(os.path.dirname(os.path.dirname(os.path.abspath(__file__))), 'mutants', name + '.patch')
open(out, 'w').write(diff)
print('wrote', out)
