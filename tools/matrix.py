#!/venv/bin/python
"""Detection matrix: every seeded change (and mutant patch) against the checks.

  tools/matrix.py [--tier quick] [--jobs 3] [--all-checks] [--only C07-1,...]
                  [--mutants] [--seed N] [--out seeded/MATRIX.json]

For each /verif/seeded/<id>/patch.diff a scratch copy of /repo/pokerkit is
made under /tmp (outside /repo and /verif), the patch applied there, the
property's check run with PKV_REPO pointing at the copy (evidence and replays
go to the scratch directory), the verdict recorded and the copy removed.
Nothing in /repo is touched.  The result table is merged into --out.
"""
import argparse
import json
import os
import re
import shutil
import subprocess
import sys
import tempfile
import time
from concurrent.futures import ThreadPoolExecutor

HERE = os.path.dirname(os.path.dirname(os.path.abspath(__file__)))
REPO = os.environ.get('PKV_REPO', '/repo')
ALL = [f'C{i:02d}' for i in range(1, 21)]


def run_one(job):
    sid, patch, props, tier, seed, shards = job[:6]
    reverse = len(job) > 6 and job[6]
    d = tempfile.mkdtemp(prefix='pkv-mx-')
    out = {}
    try:
        shutil.copytree(os.path.join(REPO, 'pokerkit'),
                        os.path.join(d, 'pokerkit'))
        r = subprocess.run(['patch', '-p1', '-s'] + (['-R'] if reverse else [])
                           + ['-i', patch], cwd=d,
                           capture_output=True, text=True)
        if r.returncode != 0:
            return sid, {p: dict(exit=3, note='patch failed: ' + r.stdout[:200])
                         for p in props}
        for p in props:
            env = dict(os.environ, PKV_REPO=d,
                       PKV_EVIDENCE_DIR=os.path.join(d, 'evidence'),
                       PKV_REPLAY_DIR=os.path.join(d, 'replays'),
                       VERIF_SEED=str(seed), PKV_SHARDS=str(shards))
            t0 = time.time()
            r = subprocess.run([os.path.join(HERE, 'check'), p, '--tier', tier],
                               env=env, capture_output=True, text=True)
            viol = [ln for ln in r.stdout.splitlines()
                    if ln.startswith('VIOLATION')]
            kinds = sorted({m.group(1) for ln in viol
                            for m in [re.search(r'kind=(\S+)', ln)] if m})
            out[p] = dict(exit=r.returncode, violations=len(viol), kinds=kinds,
                          wall_s=round(time.time() - t0, 1),
                          first=(viol[0][:300] if viol else ''),
                          err=(r.stderr[-400:] if r.returncode == 2 else ''))
    finally:
        shutil.rmtree(d, ignore_errors=True)
    return sid, out


def main():
    ap = argparse.ArgumentParser()
    ap.add_argument('--tier', default='quick')
    ap.add_argument('--jobs', type=int, default=3)
    ap.add_argument('--shards', type=int, default=8)
    ap.add_argument('--seed', type=int, default=1)
    ap.add_argument('--all-checks', action='store_true')
    ap.add_argument('--mutants', action='store_true')
    ap.add_argument('--fixes', action='store_true',
                    help='un-apply each fix commit (mutants/fix-*.patch -R)')
    ap.add_argument('--no-seeded', action='store_true')
    ap.add_argument('--only', default='')
    ap.add_argument('--out', default=os.path.join(HERE, 'seeded',
                                                  'MATRIX.json'))
    a = ap.parse_args()
    jobs = []
    only = set(filter(None, a.only.split(',')))
    sdir = os.path.join(HERE, 'seeded')
    for sid in ([] if a.no_seeded else sorted(os.listdir(sdir))):
        p = os.path.join(sdir, sid, 'patch.diff')
        if not os.path.isfile(p) or (only and sid not in only):
            continue
        with open(os.path.join(sdir, sid, 'meta.json')) as f:
            meta = json.load(f)
        props = ALL if a.all_checks else [meta['property']] + [
            x for x in meta.get('also', []) if x != meta['property']]
        jobs.append((sid, p, props, a.tier, a.seed, a.shards))
    if a.mutants:
        mdir = os.path.join(HERE, 'mutants')
        for name in sorted(os.listdir(mdir)):
            m = re.match(r'c(\d\d)_', name)
            if not m or (only and name not in only):
                continue
            jobs.append((name, os.path.join(mdir, name), [f'C{m.group(1)}'],
                         a.tier, a.seed, a.shards))
    if a.fixes:
        with open(os.path.join(HERE, 'known_findings.json')) as f:
            kf = json.load(f)['findings']
        mdir = os.path.join(HERE, 'mutants')
        for name in sorted(os.listdir(mdir)):
            m = re.match(r'fix-(\w+)\.patch', name)
            if not m or (only and name not in only):
                continue
            props = []
            for k in kf:
                if k.get('status') == 'fixed' and f'({m.group(1)}' in k['what']:
                    props = [k['property']] + re.findall(
                        r'\bC\d\d\b', k['what'].split('also', 1)[1]
                        if 'also' in k['what'] else '')
            props = list(dict.fromkeys(props))
            if props:
                jobs.append(('unfix-' + m.group(1),
                             os.path.join(mdir, name), props, a.tier, a.seed,
                             a.shards, True))
    try:
        with open(a.out) as f:
            table = json.load(f)
    except (FileNotFoundError, ValueError):
        table = {}
    with ThreadPoolExecutor(a.jobs) as ex:
        for sid, out in ex.map(run_one, jobs):
            ent = table.setdefault(sid, {})
            for p, r in out.items():
                r['tier'] = a.tier
                r['seed'] = a.seed
                ent[p] = r
                print(f"{sid:28s} {p} exit={r['exit']} viol={r.get('violations')}"
                      f" kinds={r.get('kinds')} {r.get('wall_s')}s"
                      f" {r.get('note', '')}{r.get('err', '')[-200:]}",
                      flush=True)
            with open(a.out, 'w') as f:
                json.dump(table, f, indent=1, sort_keys=True)
    missed = [s for s, e in table.items()
              if not any(r.get('exit') == 1 for r in e.values())]
    print('NOT DETECTED:', ' '.join(sorted(missed)) or '(none)')


if __name__ == '__main__':
    sys.exit(main())
