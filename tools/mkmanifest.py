"""Regenerates /verif/MANIFEST.json from the table below and validates it
against /root/.vp/MANIFEST.schema.json (when jsonschema is importable).
Run: /venv/bin/python tools/mkmanifest.py"""
import json
import os
import sys

HERE = os.path.dirname(os.path.dirname(os.path.abspath(__file__)))
sys.path.insert(0, HERE)

HOOK_COMMITS = []
FUZZED = ('C01', 'C06', 'C07', 'C08', 'C09', 'C15')

# id -> (technique, level text, level note, design ref)
CHECKS = {}


# oracles added after the first registration (DESIGN.md 9.3)
ADDED = {
    'C11': ' Raked pools; tables with math.inf stacks.',
    'C07': ' Explicit-index shows while hands are killed or chips moved by'
           ' hand.',
    'C03': ' Re-opening after short all-ins is modelled per player from the'
           ' rule book (the wager each player last answered); constructed'
           ' regions: consecutive short all-ins, a caller between two of them'
           ' (listed finding R3), a short all-in as the first wager; tables'
           ' with math.inf stacks.',
    'C01': ' Every public pot view (total_pot_amount, pot_amounts, pots)'
           ' must agree; a quarter of the runs are observed ones (all public'
           ' accessors read between operations).',
    'C02': ' Each bet collection must return exactly the uncalled part of the'
           ' largest bet (round bets rebuilt from the posting/betting'
           ' records); half of the runs are observed ones; flat-drop rake'
           ' callbacks. Tables with stacks that are not mentioned (math.inf).',
    'C04': ' Every documented CardsLike spelling; hands padded with'
           ' unknown-rank cards; a hand built from a list keeps its cards when'
           ' the list is reused. The deuce-to-seven wheel is judged by the rule book under its own signature (listed finding W1).',
    'C05': ' Every documented CardsLike spelling for hole and board;'
           ' constructed twin-suited Omaha holes. One board list grown in place between two evaluations.',
    'C06': ' An engine-chosen deal touches the reserve piles only once the'
           ' deck is exhausted; a board deal mixing known cards and'
           ' placeholders is probed on a deep copy. The same card named twice in one dealing or showing argument is probed with warnings as errors; exact accounting also over placeholders the engine writes itself.',
    'C08': ' Footprint of an explicit player index (state changes only at that'
           ' index, the right player leaves the pending queue); duplicate'
           ' cards and malformed card texts among the probed arguments. Operations carrying a multi-line commentary.',
    'C10': ' Boards are filled in order and are complete at every betting'
           ' decision; named dealees honoured; full stud tables with unknown'
           ' cards; custom streets prescribing hole and board cards. Discards in every CardsLike form must be the cards discarded; a contested hand goes through every street (street objects may be shared); nine-handed stud, every community card lies on a board.',
    'C12': ' Showdowns in any player order, partial shows before the last'
           ' street, voluntary face-down shows on a board that plays,'
           ' half-known card probes; half of the runs are observed ones.',
    'C13': ' Constructed stud hands in which the opener folds at once on a'
           ' chosen street. Heads-up layouts with a zero blind and layouts whose blinds are swallowed by the antes are judged by position.',
    'C14': ' Players who already chose or folded are probed by explicit'
           ' index; raked pools.',
    'C15': ' Exactness: after every operation the logged players, amounts'
           ' and cards are compared with what moved; completeness: every'
           ' operation returns the record it appended, commentary included;'
           ' observation transparency: reading every public accessor between'
           ' operations changes neither log nor outcome; determinism across'
           ' interpreter processes (several PYTHONHASHSEED values).',
    'C16': ' Generated edits of the action list are either reported or fully'
           ' applied; multi-hand files (1-23 hands) through text and binary'
           ' API; no user field may appear that was not given. Arbitrary strings (quotes, line breaks, control characters), arbitrary keys and date values in user fields.',
    'C17': ' Raked hands that record finishing stacks (Pluribus result = real'
           ' payoffs). Histories with standalone commentary lines and without show lines; logs of several lines with LF or CR LF.',
    'C18': ' All six rank orders. Payout tables longer than the player list.',
    'C19': ' Layouts through all twelve variants and both creation routes;'
           ' hand-evaluating entry points across CardsLike spellings; unknown'
           ' card objects; invalid layouts in bring-in games, with and'
           ' without automation. One game object called for tables of several sizes.',
    'C20': ' Thousands separators, files with several hands, screen names'
           ' containing action words. Line-end, byte-order-mark and header variants; show lines after an all-in run-out.',
}


def reg(pid, technique, text, note, ref):
    CHECKS[pid] = (technique, text + ADDED.get(pid, ''), note,
                   ref + ', 9.3')


reg('C01',
    'Hypothesis-generated operation histories (tape-driven stateful'
    ' generation) + accounting invariant after every operation',
    'Generated-history search: thousands (quick) to >10^5 (thorough) hands'
    ' over all variants/custom street lists/chip types, the chip identity'
    ' checked after every single operation incl. automation cascades.'
    ' Finds violations, never proves absence.',
    'Trusted: CPython, Hypothesis, the engine\'s enabledness queries as a'
    ' generator aid only; float/Decimal within 1e-9 relative tolerance.',
    'DESIGN.md 4 C01')
reg('C07',
    'Hypothesis-generated histories over automation subsets + documented'
    ' phase automaton as reference model',
    'Generated-history search with the automation mask as a dimension;'
    ' oracle = no exception, single active phase at each quiescent state,'
    ' log is a word of the documented phase automaton, progress, bounded'
    ' termination.',
    'Termination is checked against a bound, not proved; custom street'
    ' lists come from four templates.',
    'DESIGN.md 4 C07')

reg('C04',
    'exhaustive enumeration of all card subsets per hand class against a'
    ' from-scratch reference evaluator + Hypothesis pairs via the public'
    ' comparison operators',
    'The finite domain is enumerated completely on every run (19.4 M hand'
    ' evaluations): validity both ways, one reference key per engine rank,'
    ' strict monotonicity => all pairs agree; public operators, hash, label'
    ' and malformed inputs by generated pairs.',
    'Trusted: the reference evaluator (pkv/refeval.py, ~200 lines written'
    ' from the rules); duplicated cards and half-known cards (\'A?\') are'
    ' outside the stated domain.',
    'DESIGN.md 4 C04')
reg('C05',
    'Hypothesis-generated (hand class, hole, board) inputs vs brute force'
    ' over the legal combinations with the reference evaluator',
    'Generated-input differential test against a brute-force oracle that'
    ' encodes each composition rule; both directions (best key; none <=> no'
    ' legal combination).',
    'Trusted: pkv/refeval.py; Greek hold\'em only with exactly two hole'
    ' cards.',
    'DESIGN.md 4 C05')
reg('C08',
    'Hypothesis-generated histories + argument probes at quiescent states;'
    ' differential oracle query vs verifier vs operation on deep copies',
    'Generated-history search; at probe-chosen states each of the 16'
    ' operations is tried with valid/invalid/boundary arguments; oracle ='
    ' three-way agreement, exception types, state unchanged after refusal,'
    ' explicit index applied.',
    'Arguments within documented types; unknown cards only as face-down hole'
    ' cards or burns.',
    'DESIGN.md 4 C08')

reg('C02',
    'Hypothesis-generated terminal histories (rigged deck orders, multi-way'
    ' all-ins) vs a from-scratch pot/award reference model',
    'Generated-history differential test: pot structure, rake, every'
    ' ChipsPushing record, payoffs and the stated corollaries are compared'
    ' with pkv/refaward.py + pkv/refeval.py on a pre-push snapshot.',
    'Trusted: the two reference models; showdown hands known; odd chips'
    ' routed by the documented remainder-to-first convention.',
    'DESIGN.md 4 C02')
reg('C06',
    'Hypothesis-generated histories + card-multiset invariant and per-'
    'operation pile rules after every operation',
    'Generated-history search on all four deck sizes incl. deck exhaustion;'
    ' observer after every operation.',
    'User-supplied cards come from get_dealable_cards(count).',
    'DESIGN.md 4 C06')
reg('C09',
    'Hypothesis-generated twin runs (automation subset S vs harness-performed'
    ' defaults), metamorphic equality of logs and states',
    'Twin-run metamorphic test over automation subsets (all 2^11 reachable in'
    ' thorough): logs equal element by element, final states equal.',
    'Reserved-card reshuffle replaced by a pure function in both runs.',
    'DESIGN.md 4 C09')
reg('C15',
    'Hypothesis-generated histories: log replay on a fresh un-automated'
    ' state, run-twice determinism, deep-copy twin',
    'Round-trip / twin oracles: replayed records equal logged ones and final'
    ' states equal; two runs identical; copy untouched and equivalent.',
    'Fresh state differs only in deck order.',
    'DESIGN.md 4 C15')

reg('C03',
    'Hypothesis-generated histories + constructed short-all-in scenarios vs a'
    ' reference model of the betting round; boundary-amount probes',
    'Model-based generated-history test: actor, available actions, call and'
    ' bring-in amounts, min/pot/max raise-to and acceptance of ~15 probe'
    ' amounts per decision are compared with pkv/refbet.py in both'
    ' directions; round end.',
    'First actor of a round taken from the engine (C13 decides it); stacks'
    ' and bets read from public attributes.',
    'DESIGN.md 4 C03')
reg('C12',
    'Hypothesis-generated showdown histories vs reference award with every'
    ' showdown player tabling all cards; tournament partial-show probes',
    'Counterfactual differential test: payoffs with engine-decided'
    ' mucks/kills equal the reference everybody-tables award; each automatic'
    ' muck/kill hits a non-winner; winners end tabled.',
    'Exact for Fraction chips with the default divmod; int/custom divmod'
    ' within the odd-chip bound; no rake (rake is per pot and pots merge after'
    ' a muck).',
    'DESIGN.md 4 C12')
reg('C13',
    'Hypothesis-generated histories (rigged up-cards, blind families) vs an'
    ' independent opener rule evaluated when dealing completes',
    'Model-based generated-history test of who opens every betting round'
    ' (and whether there is one), incl. bring-in poster.',
    'First-round opener of button games judged only when every counted'
    ' forced bet was posted in full and not for heads-up with equal/zero'
    ' blinds (statement silent there).',
    'DESIGN.md 4 C13')

reg('C10',
    'Hypothesis-generated histories vs a per-street dealing model (refdeal);'
    ' facing stability invariant after every operation',
    'Model-based generated-history test: per street instance burn, hole'
    ' cards and facing per player, community cards, draws, stud fall-back,'
    ' automated dealing order, no betting while dealing pending.',
    'Street instance boundaries follow the engine\'s street_index (phases are'
    ' C07\'s); available cards read from the public piles.',
    'DESIGN.md 4 C10')
reg('C11',
    'hand-written variant table vs created states over the parameter space +'
    ' table-parameterised betting model along Hypothesis-generated hands',
    'Static table comparison for every generated parameterisation of the 12'
    ' classes and the PHH codes; dynamic C03 model fed from the table.',
    'Trusted: the table in pkv/props/c11.py.',
    'DESIGN.md 4 C11')
reg('C14',
    'Hypothesis-generated all-in hands of board games: run-out offering,'
    ' consensus rule, board structure and per-board division invariants',
    'Generated-history test with invariants over the log and the final'
    ' boards (independent consensus computation, shared pre-all-in cards,'
    ' distinctness, even division).',
    'Deck large enough for b*r boards (generator bounds r).',
    'DESIGN.md 4 C14')

reg('C16',
    'Hypothesis-generated hands + metadata/user fields: PHH dumps/loads'
    ' round trip, replay differential, corruption injection',
    'Round-trip and replay oracles over the 11 PHH variants: object and'
    ' text fixed points, player-level operations/stacks/payoffs of the'
    ' replay, regenerated text, truncated histories, corrupted histories'
    ' must raise.',
    'Single-line strings without triple apostrophes; partial stud histories'
    ' cut at a betting decision.',
    'DESIGN.md 4 C16')
reg('C17',
    'Hypothesis-generated FT/NT hands vs an independent protocol renderer;'
    ' parse-back round trip',
    'Differential test of to_pluribus_protocol and every to_acpc_protocol'
    ' message for every seat against pkv/props/c17.py:render; closing the'
    ' loop through from_acpc_protocol.',
    'Integer chips, equal stacks, blinds only, showdown decided by the'
    ' engine (the protocols have no muck action).',
    'DESIGN.md 4 C17')
reg('C18',
    'exhaustive enumeration of range notations vs an independent'
    ' enumerator + Hypothesis deals/ICM vectors with split and engine-payoff'
    ' oracles',
    'Finite notation space enumerated completely; equities compared with an'
    ' independent split and with the engine\'s own payoffs for the same'
    ' cards; ICM algebraic laws.',
    'Equities within 1e-9; sampled (partial) deals only checked for'
    ' non-negativity, sum and convex bounds.',
    'DESIGN.md 4 C18')
reg('C19',
    'exhaustive card text round trip + Hypothesis metamorphic twins over'
    ' equivalent chip/card notations, invalid-layout injection, helper'
    ' identities',
    'Metamorphic equality of states built from equivalent notations (same'
    ' shuffle); every invalid layout class must raise ValueError;'
    ' divmod/rake parts add up.',
    'Mappings do not address a position twice.',
    'DESIGN.md 4 C19')
reg('C20',
    'Hypothesis-generated NLHE hands rendered into six site formats by'
    ' independent renderers, imported and replayed; illegal-amount injection',
    'Round trip source hand -> site log -> importer -> replay: players,'
    ' seats, blinds, stacks, cards, raise-to amounts and final stacks; an'
    ' illegal amount must be reported.',
    'No real corpora offline: decides consistency between a written-down'
    ' convention and the importer (see DESIGN.md C20 L).',
    'DESIGN.md 4 C20')

NOT_APPLICABLE = {}

ALL = [f'C{i:02d}' for i in range(1, 21)]


def main():
    checks = []
    for pid in ALL:
        if pid not in CHECKS:
            continue
        if not os.path.exists(os.path.join(HERE, 'pkv', 'props',
                                           pid.lower() + '.py')):
            continue
        tech, text, note, ref = CHECKS[pid]
        checks.append(dict(
            property_id=pid,
            quick_cmd=f'./check {pid} --tier quick',
            thorough_cmd=f'./check {pid} --tier thorough',
            evidence_file=f'/verif/evidence/{pid}.json',
            replay_cmd_template=f'./check {pid} --replay {{path}}',
            engine='pkv',
            level_claimed=dict(category='exploration', text=text,
                               design_ref=ref),
            level_note=note,
            technique=tech + (
                '; plus a coverage-guided atheris/libFuzzer campaign over'
                ' the same strategy and oracle (thorough tier'
                + (', smoke-sized in quick' if pid in ('C07', 'C08') else '')
                + ')' if pid in FUZZED else ''),
        ))
    claimed = {c['property_id'] for c in checks}
    na = []
    for pid in ALL:
        if pid in claimed:
            continue
        na.append(dict(
            property_id=pid,
            reason=NOT_APPLICABLE.get(
                pid, 'not claimed yet: check under construction (the'
                ' technique applies; see DESIGN.md section 4)'),
        ))
    m = dict(
        version=1,
        setup_cmd=(
            '/venv/bin/python -c "import hypothesis" 2>/dev/null ||'
            ' /venv/bin/pip install --no-index --find-links'
            ' /opt/veriftools/wheels hypothesis; /venv/bin/python -c'
            ' "import hypothesis; print(hypothesis.__version__)";'
            ' PYTHONPATH=/verif/.deps /venv/bin/python -c "import atheris"'
            ' 2>/dev/null || /venv/bin/pip install -q --no-index'
            ' --find-links /opt/veriftools/wheels --target /verif/.deps'
            ' atheris || echo "atheris unavailable: coverage-guided part'
            ' will be skipped"'
        ),
        hooks=dict(
            guard='UOFTCPRG_POKERKIT_VERIF',
            enable='no source hooks: all observation is run-time wrapping'
                   ' inside the check process (guard name reserved, unused)',
            baseline_off_cmd='cd /repo && /venv/bin/python -m pytest -q'
                             ' -p no:cacheprovider -n 16',
            source_commits=HOOK_COMMITS,
            add_only=True,
        ),
        engines=[dict(
            name='pkv', path='/verif/pkv',
            serves_properties=sorted(claimed),
            kind_free_text='Hypothesis-driven history engine (config +'
                           ' tape interpreter), reference models, sharded'
                           ' runner, atheris/libFuzzer campaign driver'
                           ' (pkv/fuzz.py) over the same strategies and'
                           ' oracles',
        )],
        checks=checks,
        notes='All checks: ./check <ID> --tier quick|thorough; exit 0 held,'
              ' 1 VIOLATION, 2 harness error. VERIF_SEED honoured.'
              ' known_findings.json lists recorded findings and fixed'
              ' defects.',
        not_applicable=na,
    )
    path = os.path.join(HERE, 'MANIFEST.json')
    with open(path, 'w') as f:
        json.dump(m, f, indent=1)
    try:
        import jsonschema
        schema = json.load(open('/root/.vp/MANIFEST.schema.json'))
        jsonschema.validate(m, schema)
        print('MANIFEST.json valid;', len(checks), 'checks,', len(na),
              'not claimed')
    except ImportError:
        print('written (jsonschema not importable here)')


if __name__ == '__main__':
    main()
