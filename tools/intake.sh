#!/bin/sh
# tools/intake.sh SRC_ROOT - confirm every not-yet-recorded seeded change under
# SRC_ROOT (dirs holding patch.diff, demo.py, meta.json) with confirm_seed.sh,
# then run the detection matrix on the newly recorded ones.
SRC="${1:-/tmp/seeded3}"
cd "$(dirname "$0")/.." || exit 2
NEW=""
for d in "$SRC"/*/; do
  id=$(basename "$d")
  [ -f "$d/patch.diff" ] && [ -f "$d/demo.py" ] && [ -f "$d/meta.json" ] || continue
  [ -d "seeded/$id" ] && continue
  [ -f "$d/.rejected" ] && continue
  out=$(sh tools/confirm_seed.sh "$d" 2>&1 | grep CONFIRM)
  echo "$out"
  case "$out" in *confirmed=yes*) NEW="$NEW,$id";; *) echo "$out" > "$d/.rejected";; esac
done
NEW=${NEW#,}
[ -n "$NEW" ] && /venv/bin/python tools/matrix.py --jobs 2 --shards 6 --only "$NEW" 2>&1 | grep -v conda
